#!/usr/bin/env python3
"""
c2lean.py -- translate the integer/byte leaf functions of protobuf-c.c into Lean 4
definitions over BitVec (tie (a) of DESIGN.md section 3).

Input : clang-14 -Xclang -ast-dump=json of /repo/protobuf-c/protobuf-c.c (run here).
Output: lean/Pbc/Extract/Leaves.lean   (definitions, regenerated on every run)
        lean/Pbc/Extract/LeavesBE.lean (same with -DWORDS_BIGENDIAN, namespace ExtractBE)
        build/leaf_dispatch.inc        (C stubs for the translator correspondence)

Scheme ("predicated SSA"):
  * every C integer object is a `BitVec w`; clang's explicit IntegralCast / promotion
    nodes are followed, not re-derived;
  * statements are executed symbolically under a path predicate; an assignment under
    path p becomes  `let x' := bif p then e else x`;  `return e` sets ret/returned;
    so a loop-free function is one straight sequence of `let`s ending in a result tuple,
    which `bv_decide` can bit-blast after unfolding;
  * a loop becomes a recursive definition on `fuel` over the structure of loop-carried
    variables; running out of fuel clears `ok`;
  * pointer parameters are modelled per configuration as
      ('bv', N)    a buffer `BitVec (8*N)` + offset + accessible length, every access
                   bounds-checked against the length (violations clear `ok`);
      ('fn',)      an unbounded memory `Nat -> BitVec 8` + offset + length;
      ('out', w)   a scalar out-parameter (`*p = e`);
      ('ranges',)  a `ProtobufCIntRange` table (two functions + number of valid entries);
  * undefined behaviour clears `ok`: signed overflow of + - * and unary -, shift count
    >= width, left shift of a negative value or whose result is not representable.
  "f returns ok = true" therefore means: in bounds, no UB, terminated within fuel.
"""
import json, subprocess, sys, os, re

REPO = os.environ.get('PBC_REPO', '/repo')
SRC = os.path.join(REPO, 'protobuf-c', 'protobuf-c.c')

# ----------------------------------------------------------------------------------------
# configuration: which functions are translated, how their pointer parameters are modelled
# ----------------------------------------------------------------------------------------
LEAVES = [
    ('get_tag_size', {}),
    ('uint32_size', {}),
    ('int32_size', {}),
    ('zigzag32', {}),
    ('sint32_size', {}),
    ('uint64_size', {}),
    ('zigzag64', {}),
    ('sint64_size', {}),
    ('uint32_pack', {'ptr': {'out': ('bv', 10)}}),
    ('int32_pack', {'ptr': {'out': ('bv', 10)}}),
    ('sint32_pack', {'ptr': {'out': ('bv', 10)}}),
    ('uint64_pack', {'ptr': {'out': ('bv', 10)}, 'fuel': 5}),
    ('sint64_pack', {'ptr': {'out': ('bv', 10)}}),
    ('fixed32_pack', {'ptr': {'out': ('bv', 10)}}),
    ('fixed64_pack', {'ptr': {'out': ('bv', 10)}}),
    ('boolean_pack', {'ptr': {'out': ('bv', 10)}}),
    ('tag_pack', {'ptr': {'out': ('bv', 10)}}),
    ('get_type_min_size', {}),
    ('sizeof_elt_in_repeated_array', {}),
    ('is_packable_type', {}),
    ('unzigzag32', {}),
    ('unzigzag64', {}),
    ('parse_uint32', {'ptr': {'data': ('bv', 10)}}),
    ('parse_int32', {'ptr': {'data': ('bv', 10)}}),
    ('parse_uint64', {'ptr': {'data': ('bv', 10)}, 'fuel': 6}),
    ('parse_fixed_uint32', {'ptr': {'data': ('bv', 10)}}),
    ('parse_fixed_uint64', {'ptr': {'data': ('bv', 10)}}),
    ('parse_boolean', {'ptr': {'data': ('fn',)}, 'fuelparam': True}),
    ('scan_varint', {'ptr': {'data': ('bv', 10)}, 'fuel': 10}),
    ('parse_tag_and_wiretype', {'ptr': {'data': ('bv', 10), 'tag_out': ('out', 32), 'wiretype_out': ('out', 8)}, 'fuel': 4}),
    ('scan_length_prefixed_data', {'ptr': {'data': ('bv', 10), 'prefix_len_out': ('out', 64)}, 'fuel': 5}),
    ('max_b128_numbers', {'ptr': {'data': ('fn',)}, 'fuelparam': True}),
    ('int_range_lookup', {'ptr': {'ranges': ('ranges',)}, 'fuelparam': True}),
]

TYPES = {
    'uint8_t': (8, False), 'unsigned char': (8, False), 'char': (8, True), 'signed char': (8, True),
    'uint16_t': (16, False), 'unsigned short': (16, False), 'short': (16, True),
    'uint32_t': (32, False), 'unsigned int': (32, False), 'unsigned': (32, False),
    'int32_t': (32, True), 'int': (32, True),
    'uint64_t': (64, False), 'unsigned long': (64, False), 'size_t': (64, False), 'unsigned long long': (64, False),
    'int64_t': (64, True), 'long': (64, True), 'long long': (64, True),
    'protobuf_c_boolean': (32, True),
    'ProtobufCType': (32, False), 'ProtobufCLabel': (32, False), 'ProtobufCWireType': (32, False),
    '_Bool': (8, False),
}
SIZEOF = {'protobuf_c_boolean': 4, 'void *': 8, 'ProtobufCBinaryData': 16, 'int': 4, 'size_t': 8}


class Unsupported(Exception):
    pass


def ctype(node):
    t = node.get('type', {})
    q = t.get('desugaredQualType') or t.get('qualType')
    return norm_type(q, t.get('qualType'))


def norm_type(q, alt=None):
    for cand in (alt, q):
        if cand is None:
            continue
        c = cand.replace('const ', '').replace('volatile ', '').strip()
        if c in TYPES:
            return TYPES[c]
        if c.startswith('enum '):
            return (32, False)
    if q and q.strip().endswith('*'):
        return ('ptr', q)
    raise Unsupported('type %r' % q)


def bv(v, w):
    return '%d#%d' % (v % (1 << w), w)


class Fn:
    """Translator for one function."""

    def __init__(self, name, node, cfg, all_cfg, ns):
        self.name, self.node, self.cfg, self.all_cfg, self.ns = name, node, cfg, all_cfg, ns
        self.ptr = cfg.get('ptr', {})
        self.cnt = 0
        self.aux = []            # auxiliary (loop) definitions emitted before the function
        self.structs = []

    # ---- helpers -----------------------------------------------------------------
    def fresh(self, base):
        self.cnt += 1
        base = re.sub(r'[^A-Za-z0-9_]', '_', base)
        return '%s_%d' % (base, self.cnt)

    def emit(self, ctx, name, ty, expr):
        ctx['lines'].append('  let %s : %s := %s' % (name, ty, expr))
        return name

    def let(self, ctx, base, ty, expr):
        return self.emit(ctx, self.fresh(base), ty, expr)

    def live(self, ctx):
        """current path predicate as a Lean Bool expression (a name or 'true')"""
        return ctx['path']

    def band(self, a, b):
        if a == 'true':
            return b
        if b == 'true':
            return a
        return '(%s && %s)' % (a, b)

    def sel(self, p, a, b):
        if p == 'true':
            return a
        return '(bif %s then %s else %s)' % (p, a, b)

    def fault_unless(self, ctx, cond):
        """ok := ok && (path -> cond)"""
        p = self.live(ctx)
        if p == 'true':
            e = '(%s && %s)' % (ctx['ok'], cond)
        else:
            e = '(%s && (!%s || %s))' % (ctx['ok'], p, cond)
        ctx['ok'] = self.let(ctx, 'ok', 'Bool', e)

    def assign(self, ctx, var, expr):
        name, (w, s) = ctx['env'][var]
        p = self.live(ctx)
        new = self.let(ctx, var, 'BitVec %d' % w, self.sel(p, expr, name))
        ctx['env'][var] = (new, (w, s))
        ctx['mod'].add(var)
        return new

    # ---- memory ------------------------------------------------------------------
    def mem_read(self, ctx, pname, off):
        kind = self.ptr[pname]
        st = ctx['mem'][pname]
        self.fault_unless(ctx, 'BitVec.ult %s %s' % (off, st['len']))
        if kind[0] == 'bv':
            e = 'rd%d %s %s' % (kind[1], st['buf'], off)
        elif kind[0] == 'fn':
            e = '%s (%s).toNat' % (st['buf'], off)
        else:
            raise Unsupported('read through %s' % pname)
        return self.let(ctx, 'rd', 'BitVec 8', e)

    def mem_write(self, ctx, pname, off, val8):
        kind = self.ptr[pname]
        st = ctx['mem'][pname]
        self.fault_unless(ctx, 'BitVec.ult %s %s' % (off, st['len']))
        p = self.live(ctx)
        if kind[0] == 'bv':
            W = 8 * kind[1]
            e = '(wr%d %s %s %s)' % (kind[1], st['buf'], off, val8)
            new = self.let(ctx, pname + '_buf', 'BitVec %d' % W, self.sel(p, e, st['buf']))
        elif kind[0] == 'fn':
            e = '(fun i => if i = (%s).toNat then %s else %s i)' % (off, val8, st['buf'])
            new = self.let(ctx, pname + '_buf', 'Nat → BitVec 8', self.sel(p, e, st['buf']) if p == 'true' else
                           '(fun i => if (%s = true ∧ i = (%s).toNat) then %s else %s i)' % (p, off, val8, st['buf']))
        else:
            raise Unsupported('write through %s' % pname)
        st['buf'] = new
        ctx['mod'].add('@' + pname)

    # pointer expressions: returns (param name, offset expr : BitVec 64)
    def ptr_expr(self, ctx, n):
        k = n['kind']
        if k in ('ImplicitCastExpr', 'ParenExpr', 'CStyleCastExpr'):
            return self.ptr_expr(ctx, n['inner'][0])
        if k == 'DeclRefExpr':
            nm = n['referencedDecl']['name']
            if nm in ctx['ptrvars']:
                base, off = ctx['ptrvars'][nm]
                return base, off
            raise Unsupported('pointer variable %s' % nm)
        if k == 'BinaryOperator' and n['opcode'] in ('+', '-'):
            a, b = n['inner']
            ta = ctype(a)
            if ta[0] == 'ptr':
                base, off = self.ptr_expr(ctx, a)
                idx = self.to64(ctx, b)
                esz = self.elt_size(a)
            else:
                base, off = self.ptr_expr(ctx, b)
                idx = self.to64(ctx, a)
                esz = self.elt_size(b)
            if esz != 1:
                idx = '(%s * %s)' % (idx, bv(esz, 64))
            op = '+' if n['opcode'] == '+' else '-'
            return base, self.let(ctx, 'poff', 'BitVec 64', '%s %s %s' % (off, op, idx))
        if k == 'UnaryOperator' and n['opcode'] in ('++', '--') and ctype(n)[0] == 'ptr':
            sub = n['inner'][0]
            nm = sub['referencedDecl']['name']
            base, off = ctx['ptrvars'][nm]
            esz = self.elt_size(sub)
            op = '+' if n['opcode'] == '++' else '-'
            p = self.live(ctx)
            new = self.let(ctx, nm + '_off', 'BitVec 64', self.sel(p, '%s %s %s' % (off, op, bv(esz, 64)), off))
            ctx['ptrvars'][nm] = (base, new)
            ctx['mod'].add('&' + nm)
            return (base, off) if n.get('isPostfix') else (base, new)
        raise Unsupported('pointer expression %s' % k)

    def elt_size(self, n):
        q = n['type'].get('desugaredQualType') or n['type']['qualType']
        q = q.replace('const ', '').strip()
        base = q[:-1].strip()
        if base in ('void', 'char', 'unsigned char', 'uint8_t'):
            return 1
        if base in TYPES:
            return TYPES[base][0] // 8
        raise Unsupported('element size of %s' % q)

    def to64(self, ctx, n):
        e = self.expr(ctx, n)
        w, s = ctype(n)
        if w == 64:
            return e
        return '(BitVec.%s 64 %s)' % ('signExtend' if s else 'setWidth', e)

    # ---- expressions -------------------------------------------------------------
    def cond(self, ctx, n):
        """translate an expression used as a truth value into a Lean Bool expression"""
        k = n['kind']
        if k == 'ParenExpr':
            return self.cond(ctx, n['inner'][0])
        if k == 'ImplicitCastExpr' and n.get('castKind') in ('IntegralCast', 'NoOp'):
            inner = n['inner'][0]
            if inner['kind'] in ('BinaryOperator', 'UnaryOperator', 'ParenExpr') and self.is_boolish(inner):
                return self.cond(ctx, inner)
        if k == 'BinaryOperator':
            op = n['opcode']
            if op in ('<', '>', '<=', '>=', '==', '!='):
                a, b = n['inner']
                ta = ctype(a)
                if ta[0] == 'ptr':
                    raise Unsupported('pointer comparison')
                ea, eb = self.expr(ctx, a), self.expr(ctx, b)
                w, s = ta
                f = {'<': ('slt' if s else 'ult', 0), '>': ('slt' if s else 'ult', 1),
                     '<=': ('sle' if s else 'ule', 0), '>=': ('sle' if s else 'ule', 1)}
                if op == '==':
                    e = '(%s == %s)' % (ea, eb)
                elif op == '!=':
                    e = '(%s != %s)' % (ea, eb)
                else:
                    fn, sw = f[op]
                    e = '(BitVec.%s %s %s)' % ((fn, eb, ea) if sw else (fn, ea, eb))
                return self.let(ctx, 'c', 'Bool', e)
            if op in ('&&', '||'):
                a, b = n['inner']
                ca = self.cond(ctx, a)
                # right operand is evaluated only if needed; side effects must be predicated
                saved = ctx['path']
                ctx['path'] = self.let(ctx, 'p', 'Bool', self.band(saved, ca if op == '&&' else '(!%s)' % ca))
                cb = self.cond(ctx, b)
                ctx['path'] = saved
                return self.let(ctx, 'c', 'Bool', '(%s %s %s)' % (ca, op, cb))
        if k == 'UnaryOperator' and n['opcode'] == '!':
            c = self.cond(ctx, n['inner'][0])
            return self.let(ctx, 'c', 'Bool', '(!%s)' % c)
        t = ctype(n)
        if t[0] == 'ptr':
            raise Unsupported('pointer truth value')
        e = self.expr(ctx, n)
        return self.let(ctx, 'c', 'Bool', '(%s != %s)' % (e, bv(0, t[0])))

    def is_boolish(self, n):
        if n['kind'] == 'ParenExpr':
            return self.is_boolish(n['inner'][0])
        if n['kind'] == 'BinaryOperator':
            return n['opcode'] in ('<', '>', '<=', '>=', '==', '!=', '&&', '||')
        if n['kind'] == 'UnaryOperator':
            return n['opcode'] == '!'
        return False

    def expr(self, ctx, n):
        """translate an integer rvalue; returns a Lean expression (usually a bound name)"""
        k = n['kind']
        if k in ('ParenExpr', 'ConstantExpr'):
            return self.expr(ctx, n['inner'][0])
        if k == 'IntegerLiteral':
            w, s = ctype(n)
            return bv(int(n['value']), w)
        if k == 'CharacterLiteral':
            w, s = ctype(n)
            return bv(int(n['value']), w)
        if k == 'UnaryExprOrTypeTraitExpr':
            w, s = ctype(n)
            at = n.get('argType', {}).get('qualType')
            if n.get('name') == 'sizeof' and at in SIZEOF:
                return bv(SIZEOF[at], w)
            raise Unsupported('sizeof %r' % at)
        if k == 'DeclRefExpr':
            rd = n['referencedDecl']
            if rd['kind'] == 'EnumConstantDecl':
                w, s = ctype(n)
                return bv(ENUMS[rd['name']], w)
            nm = rd['name']
            if nm in ctx['env']:
                return ctx['env'][nm][0]
            raise Unsupported('reference to %s' % nm)
        if k == 'ImplicitCastExpr' or k == 'CStyleCastExpr':
            ck = n.get('castKind')
            sub = n['inner'][0]
            if ck == 'LValueToRValue':
                return self.load(ctx, sub)
            if ck == 'NoOp':
                return self.expr(ctx, sub)
            if ck == 'IntegralCast':
                wt, st_ = ctype(n)
                if self.is_boolish(sub):
                    c = self.cond(ctx, sub)
                    return self.let(ctx, 'b', 'BitVec %d' % wt, '(bif %s then %s else %s)' % (c, bv(1, wt), bv(0, wt)))
                e = self.expr(ctx, sub)
                ws, ss = ctype(sub)
                if ws == wt:
                    return e
                if wt < ws or not ss:
                    return self.let(ctx, 'cv', 'BitVec %d' % wt, 'BitVec.setWidth %d %s' % (wt, e))
                return self.let(ctx, 'cv', 'BitVec %d' % wt, 'BitVec.signExtend %d %s' % (wt, e))
            if ck == 'ToVoid':
                return None
            raise Unsupported('cast %s' % ck)
        if k == 'ConditionalOperator':
            c, a, b = n['inner']
            cc = self.cond(ctx, c)
            saved = ctx['path']
            ctx['path'] = self.let(ctx, 'p', 'Bool', self.band(saved, cc))
            ea = self.expr(ctx, a)
            ctx['path'] = self.let(ctx, 'p', 'Bool', self.band(saved, '(!%s)' % cc))
            eb = self.expr(ctx, b)
            ctx['path'] = saved
            w, s = ctype(n)
            return self.let(ctx, 't', 'BitVec %d' % w, '(bif %s then %s else %s)' % (cc, ea, eb))
        if k == 'BinaryOperator':
            return self.binop(ctx, n)
        if k == 'CompoundAssignOperator':
            return self.compound_assign(ctx, n)
        if k == 'UnaryOperator':
            return self.unop(ctx, n)
        if k == 'CallExpr':
            return self.call(ctx, n)
        if k == 'ArraySubscriptExpr' or k == 'MemberExpr':
            return self.load(ctx, n)
        raise Unsupported('expression %s' % k)

    def load(self, ctx, lv):
        k = lv['kind']
        if k == 'ParenExpr':
            return self.load(ctx, lv['inner'][0])
        if k == 'DeclRefExpr':
            nm = lv['referencedDecl']['name']
            if nm in ctx['env']:
                return ctx['env'][nm][0]
            raise Unsupported('load of %s' % nm)
        if k == 'ArraySubscriptExpr':
            base, idx = lv['inner']
            w, s = ctype(lv)
            pname, off = self.ptr_expr(ctx, base)
            i64 = self.to64(ctx, idx)
            if self.ptr[pname][0] == 'ranges':
                raise Unsupported('whole-struct load')
            if w != 8:
                raise Unsupported('non-byte array element')
            o = self.let(ctx, 'ix', 'BitVec 64', '%s + %s' % (off, i64))
            return self.mem_read(ctx, pname, o)
        if k == 'UnaryOperator' and lv['opcode'] == '*':
            sub = lv['inner'][0]
            pname, off = self.ptr_expr(ctx, sub)
            kind = self.ptr[pname]
            if kind[0] == 'out':
                return ctx['mem'][pname]['val']
            return self.mem_read(ctx, pname, off)
        if k == 'MemberExpr':
            base = lv['inner'][0]
            fld = lv['name']
            if base['kind'] == 'ArraySubscriptExpr':
                b, idx = base['inner']
                pname, off = self.ptr_expr(ctx, b)
                if self.ptr[pname][0] != 'ranges':
                    raise Unsupported('member of non-ranges')
                i64 = self.to64(ctx, idx)
                st = ctx['mem'][pname]
                self.fault_unless(ctx, 'BitVec.ult %s %s' % (i64, st['len']))
                which = {'start_value': 'sv', 'orig_index': 'oi'}[fld]
                return self.let(ctx, fld, 'BitVec 32', '%s (%s).toNat' % (st[which], i64))
            raise Unsupported('member expression')
        raise Unsupported('load from %s' % k)

    def store(self, ctx, lv, val):
        """store val (Lean expr of the lvalue's type) into lvalue"""
        k = lv['kind']
        if k == 'ParenExpr':
            return self.store(ctx, lv['inner'][0], val)
        if k == 'DeclRefExpr':
            nm = lv['referencedDecl']['name']
            if nm in ctx['env']:
                return self.assign(ctx, nm, val)
            raise Unsupported('store to %s' % nm)
        if k == 'ArraySubscriptExpr':
            base, idx = lv['inner']
            w, s = ctype(lv)
            if w != 8:
                raise Unsupported('non-byte array store')
            pname, off = self.ptr_expr(ctx, base)
            i64 = self.to64(ctx, idx)
            o = self.let(ctx, 'ix', 'BitVec 64', '%s + %s' % (off, i64))
            self.mem_write(ctx, pname, o, val)
            return val
        if k == 'UnaryOperator' and lv['opcode'] == '*':
            pname, off = self.ptr_expr(ctx, lv['inner'][0])
            kind = self.ptr[pname]
            if kind[0] == 'out':
                st = ctx['mem'][pname]
                p = self.live(ctx)
                st['val'] = self.let(ctx, pname + '_val', 'BitVec %d' % kind[1], self.sel(p, val, st['val']))
                ctx['mod'].add('@' + pname)
                return val
            self.mem_write(ctx, pname, off, val)
            return val
        raise Unsupported('store to %s' % k)

    def arith(self, ctx, op, ea, eb, w, s, tb=None):
        """C binary arithmetic on operands already converted to the common type (w,s)"""
        T = 'BitVec %d' % w
        if op in ('+', '-', '*'):
            if s:
                ov = {'+': 'saddOverflow', '-': 'ssubOverflow', '*': 'smulOverflow'}[op]
                self.fault_unless(ctx, '!(BitVec.%s %s %s)' % (ov, ea, eb))
            return self.let(ctx, 'a', T, '%s %s %s' % (ea, op, eb))
        if op in ('&', '|', '^'):
            lop = {'&': '&&&', '|': '|||', '^': '^^^'}[op]
            return self.let(ctx, 'a', T, '%s %s %s' % (ea, lop, eb))
        if op in ('<<', '>>'):
            wb, sb = tb
            # shift count must be non-negative and < width of the promoted left operand
            self.fault_unless(ctx, 'BitVec.ult %s %s' % (eb, bv(w, wb)))
            if op == '<<':
                r = self.let(ctx, 'a', T, '%s <<< %s' % (ea, eb))
                if s:
                    # C11 6.5.7p4: E1 must be non-negative and E1 * 2^E2 representable
                    self.fault_unless(ctx, '(!(BitVec.slt %s %s) && (BitVec.sshiftRight\' %s %s == %s) && !(BitVec.slt %s %s))'
                                      % (ea, bv(0, w), r, eb, ea, r, bv(0, w)))
                return r
            if s:
                return self.let(ctx, 'a', T, "BitVec.sshiftRight' %s %s" % (ea, eb))
            return self.let(ctx, 'a', T, '%s >>> %s' % (ea, eb))
        if op in ('/', '%'):
            self.fault_unless(ctx, '(%s != %s)' % (eb, bv(0, w)))
            if s:
                self.fault_unless(ctx, '!(%s == %s && %s == %s)' % (ea, bv(1 << (w - 1), w), eb, bv((1 << w) - 1, w)))
                return self.let(ctx, 'a', T, 'BitVec.%s %s %s' % ('sdiv' if op == '/' else 'srem', ea, eb))
            return self.let(ctx, 'a', T, '%s %s %s' % (ea, op, eb))
        raise Unsupported('operator %s' % op)

    def binop(self, ctx, n):
        op = n['opcode']
        a, b = n['inner']
        if op == '=':
            tl = ctype(a)
            if tl[0] == 'ptr':
                raise Unsupported('pointer assignment')
            # chained assignment a = b = c: evaluate rhs first
            val = self.expr(ctx, b)
            self.store(ctx, a, val)
            return val
        if op == ',':
            self.expr(ctx, a)
            return self.expr(ctx, b)
        if op in ('<', '>', '<=', '>=', '==', '!=', '&&', '||'):
            c = self.cond(ctx, n)
            w, s = ctype(n)
            return self.let(ctx, 'b', 'BitVec %d' % w, '(bif %s then %s else %s)' % (c, bv(1, w), bv(0, w)))
        w, s = ctype(n)
        if ctype(a)[0] == 'ptr' or ctype(b)[0] == 'ptr':
            raise Unsupported('pointer arithmetic as value')
        ea = self.expr(ctx, a)
        eb = self.expr(ctx, b)
        return self.arith(ctx, op, ea, eb, w, s, ctype(b))

    def compound_assign(self, ctx, n):
        op = n['opcode'][:-1]
        a, b = n['inner']
        tl = ctype(a)
        if tl[0] == 'ptr':
            # p += k
            nm = a['referencedDecl']['name']
            base, off = ctx['ptrvars'][nm]
            idx = self.to64(ctx, b)
            esz = self.elt_size(a)
            if esz != 1:
                idx = '(%s * %s)' % (idx, bv(esz, 64))
            p = self.live(ctx)
            new = self.let(ctx, nm + '_off', 'BitVec 64', self.sel(p, '%s %s %s' % (off, '+' if op == '+' else '-', idx), off))
            ctx['ptrvars'][nm] = (base, new)
            ctx['mod'].add('&' + nm)
            return None
        # computation type
        ct = n.get('computeResultType', {})
        cq = ct.get('desugaredQualType') or ct.get('qualType')
        cw, cs = norm_type(cq, ct.get('qualType')) if cq else tl
        old = self.load(ctx, a)
        lw, ls = tl
        if cw != lw:
            old = self.let(ctx, 'cv', 'BitVec %d' % cw, 'BitVec.%s %d %s' % ('signExtend' if (ls and cw > lw) else 'setWidth', cw, old))
        eb = self.expr(ctx, b)
        tb = ctype(b)
        if op not in ('<<', '>>') and tb[0] != cw:
            eb = self.let(ctx, 'cv', 'BitVec %d' % cw, 'BitVec.%s %d %s' % ('signExtend' if (tb[1] and cw > tb[0]) else 'setWidth', cw, eb))
        r = self.arith(ctx, op, old, eb, cw, cs, tb)
        if cw != lw:
            r = self.let(ctx, 'cv', 'BitVec %d' % lw, 'BitVec.setWidth %d %s' % (lw, r))
        self.store(ctx, a, r)
        return r

    def unop(self, ctx, n):
        op = n['opcode']
        sub = n['inner'][0]
        if op in ('++', '--'):
            t = ctype(sub)
            if t[0] == 'ptr':
                raise Unsupported('pointer ++ as value')
            w, s = t
            old = self.load(ctx, sub)
            if s:
                self.fault_unless(ctx, '(%s != %s)' % (old, bv((1 << (w - 1)) - 1 if op == '++' else (1 << (w - 1)), w)))
            new = self.let(ctx, 'inc', 'BitVec %d' % w, '%s %s %s' % (old, '+' if op == '++' else '-', bv(1, w)))
            self.store(ctx, sub, new)
            return old if n.get('isPostfix') else new
        w, s = ctype(n)
        if op == '-':
            e = self.expr(ctx, sub)
            if s:
                self.fault_unless(ctx, '!(BitVec.negOverflow %s)' % e)
            return self.let(ctx, 'a', 'BitVec %d' % w, '-%s' % e)
        if op == '~':
            e = self.expr(ctx, sub)
            return self.let(ctx, 'a', 'BitVec %d' % w, '~~~%s' % e)
        if op == '+':
            return self.expr(ctx, sub)
        if op == '!':
            c = self.cond(ctx, n)
            return self.let(ctx, 'b', 'BitVec %d' % w, '(bif %s then %s else %s)' % (c, bv(1, w), bv(0, w)))
        if op == '*':
            return self.load(ctx, n)
        raise Unsupported('unary %s' % op)

    # ---- calls ---------------------------------------------------------------------
    def callee_name(self, n):
        c = n['inner'][0]
        while c['kind'] in ('ImplicitCastExpr', 'ParenExpr'):
            c = c['inner'][0]
        return c['referencedDecl']['name']

    def call(self, ctx, n):
        fn = self.callee_name(n)
        args = n['inner'][1:]
        if fn == 'memcpy':
            return self.memcpy(ctx, args)
        if fn == 'pbcv_assert':
            c = self.cond(ctx, args[0])
            self.fault_unless(ctx, c)
            return None
        if fn not in self.all_cfg:
            raise Unsupported('call to %s' % fn)
        ccfg = self.all_cfg[fn]
        sig = SIGS[fn]
        actual = []
        ptr_args = []
        for (pn, pt), a in zip(sig['params'], args):
            if pt[0] == 'ptr':
                kind = ccfg['ptr'][pn]
                base, off = self.ptr_expr(ctx, a)
                mykind = self.ptr[base]
                if mykind != kind:
                    raise Unsupported('pointer kind mismatch in call to %s' % fn)
                st = ctx['mem'][base]
                if kind[0] in ('bv', 'fn'):
                    actual += [st['buf'], off, st['len']]
                elif kind[0] == 'out':
                    actual += [st['val']]
                elif kind[0] == 'ranges':
                    actual += [st['sv'], st['oi'], st['len']]
                ptr_args.append((pn, base, kind))
            else:
                e = self.expr(ctx, a)
                actual.append(e)
        if ccfg.get('fuelparam'):
            actual.append('fuel')
        argstr = ' '.join(actual)
        # component functions (f.ok, f.ret, f.<p>_buf ...) are called separately so that no
        # structure projection of a large let-term ever has to be reduced
        rok = self.let(ctx, 'r_ok', 'Bool', '%s.ok %s' % (fn, argstr))
        self.fault_unless(ctx, rok)
        p = self.live(ctx)
        for pn, base, kind in ptr_args:
            st = ctx['mem'][base]
            if kind[0] in ('bv', 'fn') and pn in sig['written']:
                ty = 'BitVec %d' % (8 * kind[1]) if kind[0] == 'bv' else 'Nat → BitVec 8'
                st['buf'] = self.let(ctx, base + '_buf', ty, self.sel(p, '%s.%s_buf %s' % (fn, pn, argstr), st['buf']))
                ctx['mod'].add('@' + base)
            elif kind[0] == 'out':
                st['val'] = self.let(ctx, base + '_val', 'BitVec %d' % kind[1], self.sel(p, '%s.%s_val %s' % (fn, pn, argstr), st['val']))
                ctx['mod'].add('@' + base)
        if sig['ret'] is None:
            return None
        return self.let(ctx, 'rv', 'BitVec %d' % sig['ret'][0], '%s.ret %s' % (fn, argstr))

    def memcpy(self, ctx, args):
        dst, src, cnt = args
        def strip(x):
            while x['kind'] in ('ImplicitCastExpr', 'ParenExpr', 'CStyleCastExpr'):
                x = x['inner'][0]
            return x
        c = strip(cnt)
        if c['kind'] != 'IntegerLiteral':
            raise Unsupported('memcpy with non-constant length')
        nbytes = int(c['value'])
        d, s = strip(dst), strip(src)
        if s['kind'] == 'UnaryOperator' and s['opcode'] == '&':
            # memcpy(ptr, &local, n): little-endian store of the object representation
            var = s['inner'][0]['referencedDecl']['name']
            name, (w, _) = ctx['env'][var]
            if w != 8 * nbytes:
                raise Unsupported('memcpy size mismatch')
            pname, off = self.ptr_expr(ctx, dst)
            for i in range(nbytes):
                b = self.let(ctx, 'mb', 'BitVec 8', 'BitVec.setWidth 8 (%s >>> %d)' % (name, 8 * i))
                o = self.let(ctx, 'ix', 'BitVec 64', '%s + %s' % (off, bv(i, 64)))
                self.mem_write(ctx, pname, o, b)
            return None
        if d['kind'] == 'UnaryOperator' and d['opcode'] == '&':
            var = d['inner'][0]['referencedDecl']['name']
            name, (w, sg) = ctx['env'][var]
            if w != 8 * nbytes:
                raise Unsupported('memcpy size mismatch')
            pname, off = self.ptr_expr(ctx, src)
            acc = bv(0, w)
            for i in range(nbytes):
                o = self.let(ctx, 'ix', 'BitVec 64', '%s + %s' % (off, bv(i, 64)))
                b = self.mem_read(ctx, pname, o)
                acc = self.let(ctx, 'ld', 'BitVec %d' % w, '%s ||| (BitVec.setWidth %d %s <<< %d)' % (acc, w, b, 8 * i))
            self.assign(ctx, var, acc)
            return None
        raise Unsupported('memcpy form')

    # ---- statements ------------------------------------------------------------------
    def stmt(self, ctx, n):
        if n is None or not n:
            return
        k = n['kind']
        if k == 'CompoundStmt':
            for c in n.get('inner', []):
                self.stmt(ctx, c)
            return
        if k == 'NullStmt':
            return
        if k == 'DeclStmt':
            for d in n['inner']:
                if d['kind'] != 'VarDecl':
                    raise Unsupported('declaration %s' % d['kind'])
                t = ctype(d)
                nm = d['name']
                init = d.get('inner', [])
                init = [x for x in init if x['kind'] not in ('FullComment',)]
                if t[0] == 'ptr':
                    if not init:
                        raise Unsupported('uninitialised pointer local')
                    base, off = self.ptr_expr(ctx, init[0])
                    ctx['ptrvars'][nm] = (base, off)
                    continue
                w, s = t
                if init:
                    e = self.expr(ctx, init[0])
                else:
                    e = bv(0, w)   # indeterminate; any read-before-write would be a C bug, 0 chosen
                new = self.let(ctx, nm, 'BitVec %d' % w, e)
                ctx['env'][nm] = (new, (w, s))
            return
        if k == 'ReturnStmt':
            p = self.live(ctx)
            inner = n.get('inner', [])
            if inner and SIGS[self.name]['ret'] is not None:
                e = self.expr(ctx, inner[0])
                w = SIGS[self.name]['ret'][0]
                ctx['ret'] = self.let(ctx, 'ret', 'BitVec %d' % w, self.sel(p, e, ctx['ret']))
            ctx['returned'] = self.let(ctx, 'returned', 'Bool', '(%s || %s)' % (ctx['returned'], p))
            ctx['mod'].add('!ret')
            ctx['path'] = self.let(ctx, 'p', 'Bool', 'false') if p == 'true' else self.let(ctx, 'p', 'Bool', '(%s && !%s)' % (p, ctx['returned']))
            return
        if k == 'IfStmt':
            inner = n['inner']
            c = self.cond(ctx, inner[0])
            saved = ctx['path']
            ctx['path'] = self.let(ctx, 'p', 'Bool', self.band(saved, c))
            self.stmt(ctx, inner[1])
            if len(inner) > 2:
                ctx['path'] = self.let(ctx, 'p', 'Bool', self.band(saved, '(!%s)' % c))
                self.stmt(ctx, inner[2])
            ctx['path'] = self.after(ctx, saved)
            return
        if k in ('WhileStmt', 'ForStmt', 'DoStmt'):
            return self.loop(ctx, n)
        if k == 'SwitchStmt':
            return self.switch(ctx, n)
        if k == 'BreakStmt':
            p = self.live(ctx)
            ctx['brk'] = self.let(ctx, 'brk', 'Bool', '(%s || %s)' % (ctx['brk'], p))
            ctx['mod'].add('!brk')
            ctx['path'] = self.let(ctx, 'p', 'Bool', 'false')
            return
        if k in ('CaseStmt', 'DefaultStmt'):
            raise Unsupported('case label outside switch body')
        # expression statement
        self.expr(ctx, n)

    def after(self, ctx, saved):
        """path after a compound statement that may have returned / broken"""
        e = saved
        if ctx['returned'] != 'false':
            e = self.band(e, '(!%s)' % ctx['returned'])
        if ctx['brk'] != 'false':
            e = self.band(e, '(!%s)' % ctx['brk'])
        if e == saved:
            return saved
        return self.let(ctx, 'p', 'Bool', e)

    def switch(self, ctx, n):
        inner = n['inner']
        x = self.expr(ctx, inner[0])
        w, s = ctype(inner[0])
        body = inner[1]
        # collect case constants
        consts = []

        def collect(st):
            if st['kind'] == 'CaseStmt':
                consts.append(self.const_val(st['inner'][0]))
                collect(st['inner'][-1])
            elif st['kind'] == 'DefaultStmt':
                collect(st['inner'][-1])
        for st in body.get('inner', []):
            collect(st)
        saved_path, saved_brk = ctx['path'], ctx['brk']
        ctx['brk'] = 'false'
        active = self.let(ctx, 'act', 'Bool', 'false')

        def run(st):
            nonlocal active
            if st['kind'] == 'CaseStmt':
                v = self.const_val(st['inner'][0])
                m = '(%s == %s)' % (x, bv(v, w))
                active = self.let(ctx, 'act', 'Bool', '(%s || %s)' % (active, m))
                ctx['path'] = self.let(ctx, 'p', 'Bool', self.band(self.after(ctx, saved_path), active))
                run(st['inner'][-1])
                return
            if st['kind'] == 'DefaultStmt':
                none = ' && '.join('(%s != %s)' % (x, bv(v, w)) for v in consts) or 'true'
                active = self.let(ctx, 'act', 'Bool', '(%s || (%s))' % (active, none))
                ctx['path'] = self.let(ctx, 'p', 'Bool', self.band(self.after(ctx, saved_path), active))
                run(st['inner'][-1])
                return
            self.stmt(ctx, st)
            # a statement inside the switch may have broken/returned
            ctx['path'] = self.let(ctx, 'p', 'Bool', self.band(self.after(ctx, saved_path), active))
        for st in body.get('inner', []):
            run(st)
        ctx['brk'] = saved_brk
        ctx['path'] = self.after(ctx, saved_path)

    def const_val(self, n):
        while n['kind'] in ('ConstantExpr', 'ImplicitCastExpr', 'ParenExpr'):
            if 'value' in n and n['kind'] == 'ConstantExpr':
                return int(n['value'])
            n = n['inner'][0]
        if n['kind'] == 'IntegerLiteral':
            return int(n['value'])
        if n['kind'] == 'DeclRefExpr' and n['referencedDecl']['kind'] == 'EnumConstantDecl':
            return ENUMS[n['referencedDecl']['name']]
        raise Unsupported('case constant')

    # ---- loops -------------------------------------------------------------------------
    def loop(self, ctx, n):
        k = n['kind']
        inner = n['inner']
        if k == 'WhileStmt':
            init, cond, inc, body = None, inner[0], None, inner[1]
        elif k == 'ForStmt':
            init, _, cond, inc, body = inner
        else:
            raise Unsupported('do-while')
        if init:
            self.stmt(ctx, init)
        if not self.cfg.get('fuelparam'):
            return self.loop_unrolled(ctx, cond, inc, body, int(self.cfg.get('fuel', 12)))
        self.nloops = getattr(self, 'nloops', 0) + 1
        lname = '%s.loop%d' % (self.name, self.nloops)
        sname = '%s.Loop%d' % (self.name, self.nloops)
        self.loopnames = getattr(self, 'loopnames', []) + [lname]
        # the loop state: only what the loop can modify (found by a syntactic pre-pass); everything
        # else is handed to the loop function as an invariant parameter.  Small states keep the
        # unrolled terms small, which is what makes `bv_decide` scale.
        modset = set()
        for part in (cond, body, inc):
            if part:
                self.modified_in(ctx, part, modset)
        fields = []  # (field, lean type, accessor)
        invs = []    # (param name, lean type, accessor)
        for v, (nm, (w, s)) in ctx['env'].items():
            (fields if ('env', v) in modset else invs).append(('v_' + v, 'BitVec %d' % w, ('env', v)))
        for pv, (base, off) in ctx['ptrvars'].items():
            (fields if ('ptrvar', pv) in modset else invs).append(('o_' + pv, 'BitVec 64', ('ptrvar', pv)))
        for pn, st in ctx['mem'].items():
            kind = self.ptr[pn]
            tgt = fields if ('mem', pn) in modset else invs
            if kind[0] == 'bv':
                tgt.append(('m_' + pn, 'BitVec %d' % (8 * kind[1]), ('mem', pn, 'buf')))
            elif kind[0] == 'fn':
                tgt.append(('m_' + pn, 'Nat → BitVec 8', ('mem', pn, 'buf')))
            elif kind[0] == 'out':
                tgt.append(('m_' + pn, 'BitVec %d' % kind[1], ('mem', pn, 'val')))
        fields.append(('ok', 'Bool', ('ctx', 'ok')))
        fields.append(('returned', 'Bool', ('ctx', 'returned')))
        if SIGS[self.name]['ret'] is not None:
            fields.append(('ret', 'BitVec %d' % SIGS[self.name]['ret'][0], ('ctx', 'ret')))

        def get(c, acc):
            if acc[0] == 'env':
                return c['env'][acc[1]][0]
            if acc[0] == 'ptrvar':
                return c['ptrvars'][acc[1]][1]
            if acc[0] == 'mem':
                return c['mem'][acc[1]][acc[2]]
            return c[acc[1]]

        def mk_ctx(sv):
            c = {'lines': [], 'env': {}, 'ptrvars': {}, 'mem': {}, 'mod': set(),
                 'path': None, 'ok': None, 'returned': None, 'ret': ctx['ret'], 'brk': 'false'}
            for f, ty, acc in fields:
                e = '%s.%s' % (sv, f)
                if acc[0] == 'env':
                    c['env'][acc[1]] = (e, ctx['env'][acc[1]][1])
                elif acc[0] == 'ptrvar':
                    c['ptrvars'][acc[1]] = (ctx['ptrvars'][acc[1]][0], e)
                elif acc[0] == 'mem':
                    c['mem'].setdefault(acc[1], dict(ctx['mem'][acc[1]]))[acc[2]] = e
                else:
                    c[acc[1]] = e
            for f, ty, acc in invs:
                e = 'i_' + f
                if acc[0] == 'env':
                    c['env'][acc[1]] = (e, ctx['env'][acc[1]][1])
                elif acc[0] == 'ptrvar':
                    c['ptrvars'][acc[1]] = (ctx['ptrvars'][acc[1]][0], e)
                elif acc[0] == 'mem':
                    c['mem'].setdefault(acc[1], dict(ctx['mem'][acc[1]]))[acc[2]] = e
            # invariant parts of memory (lengths, ranges tables) are shared parameters
            for pn, st in ctx['mem'].items():
                c['mem'].setdefault(pn, dict(st))
                for key in st:
                    if key not in ('buf', 'val'):
                        c['mem'][pn][key] = st[key]
            return c

        def pack(c):
            return '⟨' + ', '.join(get(c, acc) for _, _, acc in fields) + '⟩'

        inv = self.inv_params(ctx) + [(get(ctx, acc), ty, 'i_' + f) for f, ty, acc in invs]
        # --- successor case
        c1 = mk_ctx('s')
        c1['path'] = self.let(c1, 'p', 'Bool', '(path0 && !s.returned)')
        cc = self.cond(c1, cond) if cond else 'true'
        go = self.let(c1, 'go', 'Bool', self.band(c1['path'], cc))
        exit_state = pack(c1)
        c1['lines'].append('  bif !%s then %s else' % (go, exit_state))
        c1['path'] = go
        self.stmt(c1, body)
        # `continue` is not supported; `break` handled through brk
        if inc:
            c1['path'] = self.after(c1, go)
            self.expr(c1, inc)
        after_body = pack(c1)
        brk = c1['brk']
        # --- zero case: evaluate the condition; if the loop would go on, fault
        c0 = mk_ctx('s')
        c0['path'] = self.let(c0, 'p', 'Bool', '(path0 && !s.returned)')
        cc0 = self.cond(c0, cond) if cond else 'true'
        go0 = self.let(c0, 'go', 'Bool', self.band(c0['path'], cc0))
        c0['ok'] = self.let(c0, 'ok', 'Bool', '(%s && !%s)' % (c0['ok'], go0))
        zero_state = pack(c0)
        inv_decl = ' '.join('(%s : %s)' % ((x[2] if len(x) > 2 else x[0]), x[1]) for x in inv)
        inv_args_inner = ' '.join((x[2] if len(x) > 2 else x[0]) for x in inv)
        inv_args = ' '.join(x[0] for x in inv)
        self.structs.append('structure %s where\n' % sname + ''.join('  %s : %s\n' % (f, ty) for f, ty, _ in fields))
        d = 'def %s %s (path0 : Bool) : Nat → %s → %s\n' % (lname, inv_decl, sname, sname)
        d += '  | 0, s =>\n' + '\n'.join('  ' + l for l in c0['lines']) + '\n    %s\n' % zero_state
        d += '  | fuel+1, s =>\n' + '\n'.join('  ' + l for l in c1['lines']) + '\n'
        if brk != 'false':
            d += '    bif %s then %s else\n' % (brk, after_body)
        d += '    %s %s path0 fuel %s\n' % (lname, inv_args_inner, after_body)
        self.aux.append(d)
        # --- call site
        s0 = '⟨' + ', '.join(get(ctx, acc) for _, _, acc in fields) + '⟩'
        fuel = 'fuel' if self.cfg.get('fuelparam') else str(self.cfg.get('fuel', 12))
        r = self.let(ctx, 'l', sname, '%s %s %s %s %s' % (lname, inv_args, ctx['path'], fuel, s0))
        for f, ty, acc in fields:
            e = '%s.%s' % (r, f)
            if acc[0] == 'env':
                ctx['env'][acc[1]] = (e, ctx['env'][acc[1]][1])
            elif acc[0] == 'ptrvar':
                ctx['ptrvars'][acc[1]] = (ctx['ptrvars'][acc[1]][0], e)
            elif acc[0] == 'mem':
                ctx['mem'][acc[1]][acc[2]] = e
            else:
                ctx[acc[1]] = e
        ctx['mod'].add('!ret')
        ctx['path'] = self.after(ctx, ctx['path'])

    def loop_unrolled(self, ctx, cond, inc, body, fuel):
        """bounded loop, emitted inline as `fuel` predicated copies of the body (flat SSA, which is
        what bv_decide digests best); if the condition still holds after `fuel` iterations the
        function faults (ok := false), so `ok` still implies termination within the bound."""
        saved_path, saved_brk = ctx['path'], ctx['brk']
        ctx['brk'] = 'false'
        alive = 'true'
        for it in range(fuel + 1):
            p = self.after(ctx, saved_path)
            p = self.band(p, alive)
            ctx['path'] = p if p in ('true',) else self.let(ctx, 'lp', 'Bool', p)
            c = self.cond(ctx, cond) if cond else 'true'
            go = self.let(ctx, 'go', 'Bool', self.band(ctx['path'], c))
            if it == fuel:
                ctx['ok'] = self.let(ctx, 'ok', 'Bool', '(%s && !%s)' % (ctx['ok'], go))
                break
            ctx['path'] = go
            self.stmt(ctx, body)
            if inc:
                ctx['path'] = self.after(ctx, go)
                self.expr(ctx, inc)
            alive = go
        ctx['brk'] = saved_brk
        ctx['path'] = self.after(ctx, saved_path)

    def modified_in(self, ctx, n, out):
        """syntactic over-approximation of what a statement can modify"""
        if not isinstance(n, dict):
            return
        k = n.get('kind')

        def root(x):
            while x.get('kind') in ('ParenExpr', 'ImplicitCastExpr', 'CStyleCastExpr'):
                x = x['inner'][0]
            return x

        def mark_lvalue(lv):
            lv = root(lv)
            lk = lv.get('kind')
            if lk == 'DeclRefExpr':
                nm = lv['referencedDecl']['name']
                if nm in ctx['env']:
                    out.add(('env', nm))
                if nm in ctx['ptrvars']:
                    out.add(('ptrvar', nm))
            elif lk in ('ArraySubscriptExpr', 'MemberExpr') or (lk == 'UnaryOperator' and lv.get('opcode') == '*'):
                b = root(lv['inner'][0])
                while b.get('kind') in ('BinaryOperator', 'ArraySubscriptExpr', 'MemberExpr', 'UnaryOperator'):
                    b = root(b['inner'][0])
                if b.get('kind') == 'DeclRefExpr':
                    nm = b['referencedDecl']['name']
                    if nm in ctx['ptrvars']:
                        out.add(('mem', ctx['ptrvars'][nm][0]))
        if k == 'BinaryOperator' and n.get('opcode') == '=':
            mark_lvalue(n['inner'][0])
        elif k == 'CompoundAssignOperator':
            mark_lvalue(n['inner'][0])
        elif k == 'UnaryOperator' and n.get('opcode') in ('++', '--'):
            mark_lvalue(n['inner'][0])
        elif k == 'CallExpr':
            for a in n['inner'][1:]:
                b = root(a)
                while b.get('kind') in ('BinaryOperator', 'UnaryOperator', 'ArraySubscriptExpr'):
                    b = root(b['inner'][0])
                if b.get('kind') == 'DeclRefExpr':
                    nm = b['referencedDecl']['name']
                    if nm in ctx['ptrvars']:
                        out.add(('mem', ctx['ptrvars'][nm][0]))
                    if nm in ctx['env'] and root(a).get('kind') == 'UnaryOperator':
                        out.add(('env', nm))       # &local passed to a callee (memcpy into a local)
        elif k == 'DeclStmt':
            for d in n.get('inner', []):
                if d.get('kind') == 'VarDecl':
                    pass
        for c in n.get('inner', []) or []:
            self.modified_in(ctx, c, out)

    def inv_params(self, ctx):
        """invariant parameters handed to a loop function: memory lengths and tables"""
        inv = []
        for pn, st in ctx['mem'].items():
            kind = self.ptr[pn]
            if kind[0] in ('bv', 'fn'):
                inv.append((st['len'], 'BitVec 64'))
            elif kind[0] == 'ranges':
                inv.append((st['sv'], 'Nat → BitVec 32'))
                inv.append((st['oi'], 'Nat → BitVec 32'))
                inv.append((st['len'], 'BitVec 64'))
        return inv

    # ---- whole function --------------------------------------------------------------
    def translate(self):
        sig = SIGS[self.name]
        ctx = {'lines': [], 'env': {}, 'ptrvars': {}, 'mem': {}, 'mod': set(),
               'path': 'true', 'ok': 'true', 'returned': 'false', 'brk': 'false', 'ret': None}
        params = []
        for pn, pt in sig['params']:
            if pt[0] == 'ptr':
                kind = self.ptr.get(pn)
                if kind is None:
                    raise Unsupported('pointer parameter %s not configured' % pn)
                if kind[0] == 'bv':
                    params += [('%s_buf' % pn, 'BitVec %d' % (8 * kind[1])), ('%s_off' % pn, 'BitVec 64'), ('%s_len' % pn, 'BitVec 64')]
                    ctx['mem'][pn] = {'buf': pn + '_buf', 'len': pn + '_len'}
                    ctx['ptrvars'][pn] = (pn, pn + '_off')
                elif kind[0] == 'fn':
                    params += [('%s_buf' % pn, 'Nat → BitVec 8'), ('%s_off' % pn, 'BitVec 64'), ('%s_len' % pn, 'BitVec 64')]
                    ctx['mem'][pn] = {'buf': pn + '_buf', 'len': pn + '_len'}
                    ctx['ptrvars'][pn] = (pn, pn + '_off')
                elif kind[0] == 'out':
                    params += [('%s_val' % pn, 'BitVec %d' % kind[1])]
                    ctx['mem'][pn] = {'val': pn + '_val'}
                    ctx['ptrvars'][pn] = (pn, bv(0, 64))
                elif kind[0] == 'ranges':
                    params += [('%s_sv' % pn, 'Nat → BitVec 32'), ('%s_oi' % pn, 'Nat → BitVec 32'), ('%s_len' % pn, 'BitVec 64')]
                    ctx['mem'][pn] = {'sv': pn + '_sv', 'oi': pn + '_oi', 'len': pn + '_len'}
                    ctx['ptrvars'][pn] = (pn, bv(0, 64))
            else:
                params.append((san(pn), 'BitVec %d' % pt[0]))
                ctx['env'][pn] = (san(pn), pt)
        if self.cfg.get('fuelparam'):
            params.append(('fuel', 'Nat'))
        if sig['ret'] is not None:
            ctx['ret'] = bv(0, sig['ret'][0])
        body = [c for c in self.node['inner'] if c['kind'] == 'CompoundStmt'][0]
        self.stmt(ctx, body)
        # falling off the end of a non-void function whose value is used would be UB;
        # all leaves return on every path, so `returned` must hold at the end
        if sig['ret'] is not None and ctx['returned'] != 'false':
            ctx['ok'] = self.let(ctx, 'ok', 'Bool', '(%s && %s)' % (ctx['ok'], ctx['returned']))
        res = [('ok', 'Bool', ctx['ok'])]
        if sig['ret'] is not None:
            res.append(('ret', 'BitVec %d' % sig['ret'][0], ctx['ret']))
        written = set()
        for pn, pt in sig['params']:
            if pt[0] == 'ptr':
                kind = self.ptr[pn]
                if kind[0] == 'bv' and ('@' + pn) in ctx['mod'] or (kind[0] == 'bv' and self.loops_touch(pn)):
                    res.append((pn + '_buf', 'BitVec %d' % (8 * kind[1]), ctx['mem'][pn]['buf']))
                    written.add(pn)
                elif kind[0] == 'fn' and (('@' + pn) in ctx['mod']):
                    res.append((pn + '_buf', 'Nat → BitVec 8', ctx['mem'][pn]['buf']))
                    written.add(pn)
                elif kind[0] == 'out':
                    res.append((pn + '_val', 'BitVec %d' % kind[1], ctx['mem'][pn]['val']))
                    written.add(pn)
        sig['written'] = written
        sig['res'] = [(f, t) for f, t, _ in res]
        sig['lparams'] = params
        out = ''.join(self.structs)
        out += 'structure %s.Res where\n' % self.name + ''.join('  %s : %s\n' % (f, t) for f, t, _ in res) + '\n'
        out += '\n'.join(self.aux) + ('\n' if self.aux else '')
        pdecl = ' '.join('(%s : %s)' % p for p in params)
        pargs = ' '.join(p[0] for p in params)
        body = '\n'.join(ctx['lines']) + ('\n' if ctx['lines'] else '')
        comps = []
        for f, t, e in res:
            out += 'def %s.%s %s : %s :=\n' % (self.name, f, pdecl, t) + body + '  %s\n\n' % e
            comps.append('%s.%s' % (self.name, f))
        out += 'def %s %s : %s.Res :=\n' % (self.name, pdecl, self.name)
        out += '  ⟨' + ', '.join('%s.%s %s' % (self.name, f, pargs) for f, _, _ in res) + '⟩\n'
        out += 'attribute [pbc_leaf] %s\n' % ' '.join([self.name] + comps + getattr(self, 'loopnames', []))
        return out

    def loops_touch(self, pn):
        # conservative: a bv buffer of a function with loops that is ever stored to
        src = json.dumps(self.node)
        return False


ENUMS = {}
SIGS = {}
LEAN_KW = {'type', 'end', 'at', 'from', 'fun', 'do', 'then', 'else', 'if', 'let', 'have', 'show', 'in', 'open',
           'def', 'theorem', 'instance', 'structure', 'where', 'with', 'match', 'return', 'for', 'by', 'using'}


def san(nm):
    return nm + '_' if nm in LEAN_KW else nm


def load_ast(extra_flags):
    shim = os.path.join(os.path.dirname(os.path.abspath(__file__)), 'shim')
    cmd = ['clang-14', '-fsyntax-only', '-I' + shim, '-I' + REPO, '-I' + os.path.join(REPO, 'protobuf-c'),
           '-Xclang', '-ast-dump=json'] + extra_flags + [SRC]
    r = subprocess.run(cmd, stdout=subprocess.PIPE, stderr=subprocess.PIPE)
    if r.returncode != 0:
        sys.stderr.write(r.stderr.decode()[:2000])
        raise SystemExit('clang failed')
    return json.loads(r.stdout)


def collect_enums(n):
    if isinstance(n, dict):
        if n.get('kind') == 'EnumDecl':
            val = -1
            for c in n.get('inner', []):
                if c.get('kind') == 'EnumConstantDecl':
                    inner = c.get('inner', [])
                    v = None
                    for x in inner:
                        v = find_value(x)
                        if v is not None:
                            break
                    val = v if v is not None else val + 1
                    ENUMS[c['name']] = val
        for c in n.get('inner', []) or []:
            collect_enums(c)


def find_value(n):
    if 'value' in n and n.get('kind') in ('ConstantExpr', 'IntegerLiteral'):
        return int(n['value'])
    for c in n.get('inner', []) or []:
        v = find_value(c)
        if v is not None:
            return v
    return None


def translate_all(extra_flags, ns, only=None):
    ast = load_ast(extra_flags)
    ENUMS.clear()
    SIGS.clear()
    collect_enums(ast)
    fns = {}
    for n in ast['inner']:
        if n.get('kind') == 'FunctionDecl' and any(c.get('kind') == 'CompoundStmt' for c in n.get('inner', [])):
            fns[n['name']] = n
    cfgs = dict(LEAVES)
    out = []
    status = {}
    for name, cfg in LEAVES:
        if only and name not in only:
            continue
        node = fns.get(name)
        if node is None:
            status[name] = 'missing'
            continue
        try:
            params = []
            for p in node['inner']:
                if p['kind'] == 'ParmVarDecl':
                    params.append((p['name'], ctype(p)))  # C name; Lean name is san(name)
            rq = node['type']['qualType'].split('(')[0].strip()
            ret = None if rq == 'void' else norm_type(rq)
            SIGS[name] = {'params': params, 'ret': ret}
            txt = Fn(name, node, cfg, cfgs, ns).translate()
            out.append('-- ' + '-' * 70 + '\n-- %s  (protobuf-c.c:%s)\n' % (name, node.get('loc', {}).get('line', node.get('loc', {}).get('expansionLoc', {}).get('line', '?'))) + txt)
            status[name] = 'ok'
        except Unsupported as e:
            status[name] = 'unsupported: %s' % e
            SIGS.pop(name, None)
            cfgs.pop(name, None)
        except KeyError as e:
            status[name] = 'unsupported: key %s' % e
            SIGS.pop(name, None)
            cfgs.pop(name, None)
    return out, status, dict(SIGS)


HEADER = '''/-
  GENERATED by tools/c2lean.py from %s -- do not edit.
  Flags: %s
-/
import Pbc.Extract.Attr
set_option linter.unusedVariables false
namespace Pbc.%s

/-- byte `ix` of a 10-byte window (byte i at bits 8i..8i+7); 0 outside the window -/
def rd10 (buf : BitVec 80) (ix : BitVec 64) : BitVec 8 :=
  bif ix == 0 then BitVec.extractLsb' 0 8 buf else bif ix == 1 then BitVec.extractLsb' 8 8 buf
  else bif ix == 2 then BitVec.extractLsb' 16 8 buf else bif ix == 3 then BitVec.extractLsb' 24 8 buf
  else bif ix == 4 then BitVec.extractLsb' 32 8 buf else bif ix == 5 then BitVec.extractLsb' 40 8 buf
  else bif ix == 6 then BitVec.extractLsb' 48 8 buf else bif ix == 7 then BitVec.extractLsb' 56 8 buf
  else bif ix == 8 then BitVec.extractLsb' 64 8 buf else bif ix == 9 then BitVec.extractLsb' 72 8 buf else 0

/-- the window with byte `ix` replaced by `v` (unchanged when `ix` is outside the window) -/
def wr10 (buf : BitVec 80) (ix : BitVec 64) (v : BitVec 8) : BitVec 80 :=
  BitVec.setWidth 80 (bif ix == 0 then v else BitVec.extractLsb' 0 8 buf)
  ||| (BitVec.setWidth 80 (bif ix == 1 then v else BitVec.extractLsb' 8 8 buf) <<< 8)
  ||| (BitVec.setWidth 80 (bif ix == 2 then v else BitVec.extractLsb' 16 8 buf) <<< 16)
  ||| (BitVec.setWidth 80 (bif ix == 3 then v else BitVec.extractLsb' 24 8 buf) <<< 24)
  ||| (BitVec.setWidth 80 (bif ix == 4 then v else BitVec.extractLsb' 32 8 buf) <<< 32)
  ||| (BitVec.setWidth 80 (bif ix == 5 then v else BitVec.extractLsb' 40 8 buf) <<< 40)
  ||| (BitVec.setWidth 80 (bif ix == 6 then v else BitVec.extractLsb' 48 8 buf) <<< 48)
  ||| (BitVec.setWidth 80 (bif ix == 7 then v else BitVec.extractLsb' 56 8 buf) <<< 56)
  ||| (BitVec.setWidth 80 (bif ix == 8 then v else BitVec.extractLsb' 64 8 buf) <<< 64)
  ||| (BitVec.setWidth 80 (bif ix == 9 then v else BitVec.extractLsb' 72 8 buf) <<< 72)
attribute [pbc_leaf] rd10 wr10

'''


def gen_dispatch(sigs_c, sigs_l, cfgs):
    """C stubs (harness) and Lean dispatcher (driver) for the translator correspondence"""
    c = ['/* GENERATED by tools/c2lean.py */', 'static unsigned long long tok_ull(void) { return strtoull(tok(), NULL, 10); }',
         'static void op_leaf(void)', '{', '\tconst char *fn = tok();']
    l = ['/- GENERATED by tools/c2lean.py -/', 'import Pbc.Extract.Leaves', 'import Pbc.Extract.Support', 'namespace Pbc.Extract', 'open Pbc.Extract.Support', '',
         'def runLeaf (fn : String) (a : Array String) : String :=', '  match fn with']
    CT = {8: 'uint8_t', 16: 'uint16_t', 32: 'uint32_t', 64: 'uint64_t'}
    for name, cfg in LEAVES:
        if name not in sigs_l:
            continue
        sig = sigs_c[name]
        ptr = cfg.get('ptr', {})
        cl = ['\tif (!strcmp(fn, "%s")) {' % name]
        cargs, largs, outs_c, outs_l, frees = [], [], [], [], []
        i = 0
        for pn, pt in sig['params']:
            if pt[0] == 'ptr':
                kind = ptr[pn]
                if kind[0] == 'bv':
                    cl.append('\t\tuint8_t %s[%d]; { size_t n_; uint8_t *b_ = hex2bytes(tok() + 1, &n_); memset(%s, 0, %d); memcpy(%s, b_, n_ < %d ? n_ : %d); free(b_); }' % (pn, kind[1], pn, kind[1], pn, kind[1], kind[1]))
                    cargs.append(pn)
                    largs += ['(bufOfHex %d ((a[%d]!).drop 1).toString)' % (kind[1], i), '0', '%d' % kind[1]]
                    if pn in sig['written']:
                        outs_c.append('printf(" %s="); put_hex(%s, %d);' % (pn, pn, kind[1]))
                        outs_l.append('" %s=" ++ hexOfBuf %d r.%s_buf' % (pn, kind[1], pn))
                elif kind[0] == 'fn':
                    cl.append('\t\tsize_t %s_n; uint8_t *%s_raw = hex2bytes(tok() + 1, &%s_n); uint8_t *%s = exact_copy(%s_raw, %s_n); free(%s_raw);' % ((pn,) * 7))
                    cargs.append(pn)
                    frees.append('free(%s);' % pn)
                    largs += ['(memOfHex ((a[%d]!).drop 1).toString)' % i, '0', '(BitVec.ofNat 64 (((a[%d]!).length - 1) / 2))' % i]
                elif kind[0] == 'out':
                    cl.append('\t\t%s %s = (%s) tok_ull();' % (CT[kind[1]], pn, CT[kind[1]]))
                    cargs.append('&' + pn)
                    largs.append('(BitVec.ofNat %d (a[%d]!).toNat!)' % (kind[1], i))
                    outs_c.append('printf(" %s=%%llu", (unsigned long long) %s);' % (pn, pn))
                    outs_l.append('" %s=" ++ toString r.%s_val.toNat' % (pn, pn))
                elif kind[0] == 'ranges':
                    cl.append('\t\tunsigned %s_n = (unsigned) tok_ull(), k_; ProtobufCIntRange *%s = malloc((%s_n + 1) * sizeof *%s); for (k_ = 0; k_ <= %s_n; k_++) { %s[k_].start_value = (int) strtoll(tok(), NULL, 10); %s[k_].orig_index = (unsigned) tok_ull(); }' % ((pn,) * 7))
                    cargs.append(pn)
                    frees.append('free(%s);' % pn)
                    # lean: a[i] = n, then 2(n+1) numbers; handled by rangesOf starting at index i
                    largs += ['(rangesSv a %d)' % i, '(rangesOi a %d)' % i, '(BitVec.ofNat 64 ((a[%d]!).toNat! + 1))' % i]
                    # remaining scalar params come after the table: index shift handled below
                    i = ('after_ranges', i)
            else:
                w = pt[0]
                if isinstance(i, tuple):
                    cl.append('\t\t%s %s = (%s) strtoll(tok(), NULL, 10);' % (CT[w], pn + '_', CT[w]))
                    largs.append('(BitVec.ofInt %d (rangesArg a %d 0))' % (w, i[1]))
                else:
                    cl.append('\t\t%s %s = (%s) tok_ull();' % (CT[w], pn + '_', CT[w]))
                    largs.append('(BitVec.ofNat %d (a[%d]!).toNat!)' % (w, i))
                cargs.append(pn + '_')
            if not isinstance(i, tuple):
                i += 1
        # C parameter order: ranges functions take (n_ranges, ranges, value): n_ranges is a scalar BEFORE the table
        if cfg.get('fuelparam'):
            largs.append('100000')
        call = '%s(%s)' % (name, ', '.join(cargs))
        if sig['ret'] is not None:
            w = sig['ret'][0]
            cl.append('\t\tunsigned long long r_ = (unsigned long long) (%s) %s;' % (CT[w], call))
            cl.append('\t\tprintf("ret=%llu", r_);')
            retl = '"ret=" ++ toString r.ret.toNat'
        else:
            cl.append('\t\t%s;' % call)
            cl.append('\t\tprintf("ret=-");')
            retl = '"ret=-"'
        cl += ['\t\t' + o for o in outs_c]
        cl.append('\t\tprintf("\\n");')
        cl += ['\t\t' + f for f in frees]
        cl.append('\t\treturn;')
        cl.append('\t}')
        c += cl
        l.append('  | "%s" =>' % name)
        l.append('    let r := %s %s' % (name, ' '.join(largs)))
        l.append('    if r.ok then ' + ' ++ '.join([retl] + outs_l) + ' else "fault"')
    c += ['\tprintf("bad-leaf\\n");', '}']
    l += ['  | _ => "bad-leaf"', '', 'end Pbc.Extract']
    return '\n'.join(c) + '\n', '\n'.join(l) + '\n'


def main():
    outdir = sys.argv[1] if len(sys.argv) > 1 else os.path.join(os.path.dirname(__file__), '..', 'lean', 'Pbc', 'Extract')
    os.makedirs(outdir, exist_ok=True)
    report = {}
    for flags, ns, fname in (([], 'Extract', 'Leaves.lean'), (['-DWORDS_BIGENDIAN'], 'ExtractBE', 'LeavesBE.lean')):
        only = None
        if ns == 'ExtractBE':
            only = {'uint32_pack', 'fixed32_pack', 'fixed64_pack', 'parse_fixed_uint32', 'parse_fixed_uint64'}
        out, status, sigs = translate_all(flags, ns, only)
        txt = HEADER % (SRC, ' '.join(flags) or '(none)', ns) + '\n'.join(out) + '\nend Pbc.%s\n' % ns
        path = os.path.join(outdir, fname)
        old = open(path).read() if os.path.exists(path) else None
        if old != txt:
            open(path, 'w').write(txt)
        if ns == 'Extract':
            ctxt, ltxt = gen_dispatch(sigs, {k: v for k, v in sigs.items() if 'lparams' in v}, dict(LEAVES))
            bdir = os.environ.get('PBC_BUILD', os.path.join(os.path.dirname(os.path.abspath(__file__)), '..', 'build'))
            os.makedirs(bdir, exist_ok=True)
            for pth, t in ((os.path.join(bdir, 'leaf_dispatch.inc'), ctxt), (os.path.join(outdir, 'Dispatch.lean'), ltxt)):
                if not os.path.exists(pth) or open(pth).read() != t:
                    open(pth, 'w').write(t)
        report[ns] = {'status': status, 'sigs': {k: {'params': v['lparams'], 'res': v['res']} for k, v in sigs.items() if 'lparams' in v}}
    json.dump(report, open(os.path.join(outdir, 'report.json'), 'w'), indent=1)
    bad = {k: v for ns in report for k, v in report[ns]['status'].items() if v != 'ok'}
    for k, v in bad.items():
        print('c2lean: %s: %s' % (k, v))
    print('c2lean: %d functions translated' % sum(1 for ns in report for v in report[ns]['status'].values() if v == 'ok'))


if __name__ == '__main__':
    main()
