#!/usr/bin/env python3
"""
pbgen.py -- schemas, in-memory message literals, and an independent wire encoder, all derived
from one PRNG (random.Random(seed)), for the correspondence checks (DESIGN.md section 4).

Vocabulary mirrors harness/pbc_harness.c and lean/Drv/Main.lean:
  schema block lines   `schema n` / `msg idx name nfields initmode ngroups` / `f name id label type flags group sub dflt init`
  message literal      `M ty <slot>* U n (tag wt Xhex)*`
"""
import random, struct

T_INT32, T_SINT32, T_SFIXED32, T_INT64, T_SINT64, T_SFIXED64, T_UINT32, T_FIXED32, T_UINT64, T_FIXED64, \
    T_FLOAT, T_DOUBLE, T_BOOL, T_ENUM, T_STRING, T_BYTES, T_MESSAGE = range(17)
TYPE_NAMES = ['int32', 'sint32', 'sfixed32', 'int64', 'sint64', 'sfixed64', 'uint32', 'fixed32', 'uint64',
              'fixed64', 'float', 'double', 'bool', 'enum', 'string', 'bytes', 'message']
L_REQ, L_OPT, L_REP, L_NONE = range(4)
F_PACKED, F_ONEOF = 1, 4
F_DEPRECATED = 2
IS32 = {T_INT32, T_SINT32, T_SFIXED32, T_UINT32, T_FIXED32, T_FLOAT, T_ENUM, T_BOOL}
IS64 = {T_INT64, T_SINT64, T_SFIXED64, T_UINT64, T_FIXED64, T_DOUBLE}
PACKABLE = IS32 | IS64
WT = {T_SFIXED32: 5, T_FIXED32: 5, T_FLOAT: 5, T_SFIXED64: 1, T_FIXED64: 1, T_DOUBLE: 1,
      T_STRING: 2, T_BYTES: 2, T_MESSAGE: 2}


def wire_type(t):
    return WT.get(t, 0)


class Field:
    def __init__(s, name, id, label, type, flags=0, group=-1, sub=-1, dflt=None, init=None):
        s.name, s.id, s.label, s.type, s.flags, s.group, s.sub, s.dflt, s.init = name, id, label, type, flags, group, sub, dflt, init

    @property
    def packed(s):
        return bool(s.flags & F_PACKED)

    @property
    def oneof(s):
        return s.group >= 0

    @property
    def has_q(s):
        return s.label == L_REP or s.oneof or (s.label == L_OPT and s.type not in (T_STRING, T_MESSAGE))

    def dflt_tok(s):
        d = s.dflt
        if d is None:
            return '-'
        k, v = d
        if k == 'E':
            return 'E'
        if k == 'V':
            return 'V%x' % v
        return k + bytes(v).hex()

    def line(s):
        return 'f %s %d %d %d %d %d %d %s %s' % (s.name, s.id, s.label, s.type, s.flags, s.group, s.sub, s.dflt_tok(),
                                                  '-' if s.init is None else 'V%x' % s.init)


class Msg:
    def __init__(s, name, fields, initmode=0, ngroups=0, syntax=2):
        s.name, s.fields, s.initmode, s.ngroups, s.syntax = name, sorted(fields, key=lambda f: f.id), initmode, ngroups, syntax


class Schema:
    def __init__(s, msgs, syntax=2):
        s.msgs = msgs
        s.syntax = syntax

    def lines(s):
        out = ['schema %d %d' % (len(s.msgs), s.syntax)]
        for i, m in enumerate(s.msgs):
            out.append('msg %d %s %d %d %d' % (i, m.name, len(m.fields), m.initmode, m.ngroups))
            out += [f.line() for f in m.fields]
        return out


# ------------------------------------------------------------------------------------------------
# boundary-heavy value pools
# ------------------------------------------------------------------------------------------------
def _bounds(width):
    s = {0, 1, 2, (1 << width) - 1, (1 << width) - 2, 1 << (width - 1), (1 << (width - 1)) - 1, (1 << (width - 1)) + 1}
    for k in range(1, 10):
        for d in (-1, 0, 1):
            v = (1 << (7 * k)) + d
            if 0 <= v < (1 << width):
                s.add(v)
                s.add(((1 << width) - v) % (1 << width))
    for k in (8, 16, 24, 31, 32, 33, 48, 56, 63):
        for d in (-1, 0, 1):
            v = (1 << k) + d
            if 0 <= v < (1 << width):
                s.add(v)
    return sorted(s)


B32, B64 = _bounds(32), _bounds(64)
F32 = [0x00000000, 0x80000000, 0x3f800000, 0xbf800000, 0x7f800000, 0xff800000, 0x7fc00000, 0x7fc00001, 0xffc12345,
       0x00000001, 0x807fffff, 0x7f7fffff, 0x4b800001, 0x3dcccccd]
F64 = [0x0, 0x8000000000000000, 0x3ff0000000000000, 0xbff0000000000000, 0x7ff0000000000000, 0xfff0000000000000,
       0x7ff8000000000000, 0x7ff8000000000001, 0xfff8123456789abc, 0x1, 0x800fffffffffffff, 0x7fefffffffffffff,
       0x4340000000000001, 0x3fb999999999999a]


ENUM_VALUES = [0, 1, 2, 5, 127, 128, 255, 16383, 16384, -1, -2, -128, -129, 2147483647, -2147483648, 1000000]


def rand_scalar(rng, t):
    if t == T_ENUM:
        return rng.choice(ENUM_VALUES) & 0xffffffff
    if t == T_BOOL:
        # protobuf_c_boolean is an int: any non-zero value is 'true' for the application, and goes on the wire as 1
        if rng.random() < 0.15:
            return rng.choice([2, 4, 255, 256, 0x10000, 0x80000000, 0xffffffff])
        return rng.choice([0, 1, 1, 0, 1])
    if t == T_FLOAT:
        return rng.choice(F32) if rng.random() < 0.6 else rng.getrandbits(32)
    if t == T_DOUBLE:
        return rng.choice(F64) if rng.random() < 0.6 else rng.getrandbits(64)
    if t in IS32:
        r = rng.random()
        if r < 0.55:
            return rng.choice(B32)
        if r < 0.8:
            return rng.getrandbits(rng.choice([3, 7, 8, 14, 21, 28, 32]))
        return rng.getrandbits(32)
    r = rng.random()
    if r < 0.55:
        return rng.choice(B64)
    if r < 0.8:
        return rng.getrandbits(rng.choice([3, 7, 14, 21, 28, 35, 42, 49, 56, 63, 64]))
    return rng.getrandbits(64)


LEN_POOL = [0, 1, 2, 3, 5, 9, 17, 126, 127, 128, 129, 200]


def rand_len(rng, big=False):
    r = rng.random()
    if big and r < 0.03:
        return rng.choice([16382, 16383, 16384, 16385])
    if r < 0.5:
        return rng.choice(LEN_POOL[:7])
    if r < 0.7:
        return rng.choice(LEN_POOL)
    return rng.randrange(0, 40)


def rand_bytes(rng, n, nonul=False):
    if nonul:
        return bytes(rng.randrange(1, 256) for _ in range(n))
    r = rng.random()
    if r < 0.2:
        return bytes([rng.choice([0, 0x7f, 0x80, 0xff])]) * n
    return bytes(rng.getrandbits(8) for _ in range(n))


# ------------------------------------------------------------------------------------------------
# schemas
# ------------------------------------------------------------------------------------------------
ID_POOL = [1, 2, 3, 4, 5, 15, 16, 17, 100, 2047, 2048, 2049, (1 << 18) - 1, 1 << 18, (1 << 25) - 1, 1 << 25, (1 << 28), (1 << 29) - 1]


def rand_ids(rng, n):
    mode = rng.random()
    ids = set()
    if mode < 0.4:                       # dense from 1
        ids = set(range(1, n + 1))
    elif mode < 0.6:                     # dense with a gap
        start = rng.choice([1, 2, 14, 15, 2046])
        ids = set(range(start, start + n))
        if n > 2:
            ids.discard(sorted(ids)[rng.randrange(1, n - 1)])
    while len(ids) < n:
        if rng.random() < 0.5:
            ids.add(rng.choice(ID_POOL))
        else:
            ids.add(rng.randrange(1, rng.choice([20, 3000, 1 << 20, 1 << 29])))
        ids = {i for i in ids if not 19000 <= i <= 19999}      # reserved by the .proto language: protoc rejects them
    return sorted(ids)[:n]


# default literals that stress the generator's C escaping: a control byte followed by an octal digit, quotes, backslashes,
# trigraphs, comment markers, printf directives, high bytes; for bytes also embedded NULs
TRICKY_STR = [b'\x011', b'\x0f7up', b'x\x070', b'"quoted"', b'back\\slash', b"it's", b'??/', b'??=x', b'a?b', b'\xff\xfe',
              b'\x7f', b'\t\n\r', b'%d%s', b'/*', b'*/', b'\x1b[0m', b'\xc3\xa9', b'\x019', b'\x1f0']
TRICKY_BIN = TRICKY_STR + [b'\x001', b'\x00\x00\x00', b'a\x000', b'\x00', b'\x007\x00']


def rand_default(rng, t):
    if t == T_BOOL:
        return ('V', rng.choice([0, 1, 1]))          # the .proto can only say true / false
    if t == T_FLOAT:
        v = rand_scalar(rng, t)
        return ('V', 0x7fc00000 if (v & 0x7f800000) == 0x7f800000 and (v & 0x7fffff) else v)   # .proto text cannot carry a NaN payload
    if t == T_DOUBLE:
        v = rand_scalar(rng, t)
        return ('V', 0x7ff8000000000000 if (v & 0x7ff0000000000000) == 0x7ff0000000000000 and (v & 0xfffffffffffff) else v)
    if t == T_STRING:
        if rng.random() < 0.4:
            return ('S', rng.choice(TRICKY_STR))
        return ('S', rand_bytes(rng, rng.choice([0, 1, 3, 8]), nonul=True))
    if t == T_BYTES:
        if rng.random() < 0.4:
            return ('B', rng.choice(TRICKY_BIN))
        return ('B', rand_bytes(rng, rng.choice([0, 1, 3, 8])))
    if t == T_MESSAGE:
        return None
    return ('V', rand_scalar(rng, t))


DEFAULT_EQ_P = 0.25      # probability that a present field with a declared default holds exactly that default


def rand_schema(rng, nmsgs=None, max_fields=8, allow_generic=True, syntax=None, big=False, types=None, dflt_p=0.35, deprecated_p=0.12):
    nmsgs = nmsgs or rng.choice([1, 1, 2, 2, 3, 4])
    msgs = []
    syntax = syntax or rng.choice([2, 2, 3])
    for mi in range(nmsgs):
        syn = syntax
        r = rng.random()
        if big and r < 0.15:
            nf = rng.choice([17, 33, 129, 130, 200])
        else:
            nf = rng.choice([0, 1, 2, 3, 4, 5, 6, max_fields])
        ids = rand_ids(rng, nf)
        initmode = 1 if (allow_generic and rng.random() < 0.2) else 0
        ngroups = 0 if nf < 2 else rng.choice([0, 0, 1, 1, 2])
        fields = []
        group_left = {}
        # choose which fields are oneof members
        member_of = {}
        idxs = list(range(nf))
        rng.shuffle(idxs)
        pos = 0
        for g in range(ngroups):
            k = rng.choice([1, 2, 2, 3])
            for j in idxs[pos:pos + k]:
                member_of[j] = g
            pos += k
        used_groups = sorted(set(member_of.values()))
        remap = {g: i for i, g in enumerate(used_groups)}
        ngroups = len(used_groups)
        for j in range(nf):
            t = rng.choice(types) if types else rng.randrange(17)
            sub = -1
            g = remap[member_of[j]] if j in member_of else -1
            if g >= 0:
                label = L_OPT if syn == 2 else L_NONE
            elif syn == 2:
                label = rng.choice([L_REQ, L_OPT, L_OPT, L_REP, L_REP])
            else:
                label = rng.choice([L_NONE, L_NONE, L_REP])
            if t == T_MESSAGE:
                if label == L_REQ:
                    if mi + 1 >= nmsgs:
                        label = L_OPT
                        sub = rng.randrange(nmsgs)
                    else:
                        sub = rng.randrange(mi + 1, nmsgs)
                else:
                    sub = rng.randrange(nmsgs)
            flags = 0
            if g >= 0:
                flags |= F_ONEOF
            if label == L_REP and t in PACKABLE:
                if syn == 3:
                    if rng.random() < 0.8:
                        flags |= F_PACKED
                elif rng.random() < 0.5:
                    flags |= F_PACKED
            dflt = None
            init = None
            if t == T_STRING and syn == 3:
                dflt = ('E', None)
            elif syn == 2 and label != L_REP and t != T_MESSAGE and rng.random() < dflt_p and not (initmode == 1 and g >= 0):
                dflt = rand_default(rng, t)
            elif syn == 2 and t == T_ENUM and label != L_REP and g < 0 and initmode == 0 and rng.random() < 0.3:
                init = rng.choice([1, 5, 0xffffffff, 0x80000000])   # first declared value of some enum
            fields.append(Field('f%d' % ids[j] if rng.random() < 0.7 else rng.choice(['a', 'b', 'ab', 'abc', 'B', 'zz', '_x']) + str(ids[j]),
                                ids[j], label, t, flags, g, sub, dflt, init))
        for f_ in fields:
            # [deprecated = true] sets one more bit in the flags word next to PACKED / ONEOF: it must change nothing
            if deprecated_p and rng.random() < deprecated_p:
                f_.flags |= F_DEPRECATED
        msgs.append(Msg('M%d' % mi, fields, initmode, ngroups, syn))
    return Schema(msgs, syntax)


# ------------------------------------------------------------------------------------------------
# in-memory messages.  Python form:
#   {'ty': i, 'slots': [slot per field], 'unk': [(tag, wt, bytes)]}
#   slot: ('one', q, val) | ('rep', n, None | [val...])
#   val : ('w', int) | ('str', cls, bytes) | ('bin', len, cls, bytes) | ('msg', None | msgdict) | ('zero',)
#         cls in 'N','D','E','S' (string) / 'N','D','B' (bytes)
# ------------------------------------------------------------------------------------------------
def init_val(f):
    """value held by a fresh message (generated init)"""
    if f.init is not None:
        return ('w', f.init)
    if f.dflt is not None:
        k, v = f.dflt
        if k == 'V':
            return ('w', v)
        if k == 'S':
            return ('str', 'D', bytes(v))
        if k == 'E':
            return ('str', 'D', b'')
        if k == 'B':
            return ('bin', len(v), 'D', bytes(v))
    if f.type == T_STRING:
        return ('str', 'N', b'')
    if f.type == T_BYTES:
        return ('bin', 0, 'N', b'')
    if f.type == T_MESSAGE:
        return ('msg', None)
    return ('w', 0)


def rand_val(rng, schema, f, depth, big=False, budget=None):
    t = f.type
    if f.dflt is not None and f.dflt[0] in ('V', 'S', 'B') and rng.random() < DEFAULT_EQ_P:
        # explicitly present, but holding exactly the declared default value
        k, v = f.dflt
        if k == 'V':
            return ('w', v)
        if k == 'S':
            return ('str', 'S', bytes(v))
        return ('bin', len(v), 'B', bytes(v)) if len(v) else ('bin', 0, 'N', b'')
    if t == T_STRING:
        n = rand_len(rng, big)
        if getattr(schema, 'syntax', 2) == 3 or rng.random() < 0.5:
            # proto3 strings must be valid UTF-8 for the reference implementation: keep to ASCII
            return ('str', 'S', bytes(rng.randrange(1, 128) for _ in range(n)))
        return ('str', 'S', rand_bytes(rng, n, nonul=True))
    if t == T_BYTES:
        n = rand_len(rng, big)
        if n == 0:
            return ('bin', 0, 'N', b'') if rng.random() < 0.7 else ('bin', 0, 'B', b'')
        return ('bin', n, 'B', rand_bytes(rng, n))
    if t == T_MESSAGE:
        return ('msg', rand_msg(rng, schema, f.sub, depth + 1, big, budget=budget))
    return ('w', rand_scalar(rng, t))


SLAB_EDGES = [15, 16, 17, 31, 32, 33, 47, 48, 49, 111, 112, 113, 239, 240, 241]


def rand_unknown(rng, m, big=False):
    known = {f.id for f in m.fields}
    out = []
    n = rng.choice([0, 0, 0, 1, 2, 3]) if rng.random() > 0.03 else rng.choice([16, 17, 33, 49, 113])
    for _ in range(n):
        while True:
            r = rng.random()
            if r < 0.35 and known:
                # a number adjacent to a declared one (just before / after a run of the number-range table)
                tag = rng.choice(sorted(known)) + rng.choice([-1, 1, 1, 2])
            elif r < 0.65:
                tag = rng.choice(ID_POOL)
            else:
                tag = rng.randrange(1, rng.choice([30, 5000, 1 << 29]))
            if tag not in known and 0 < tag < (1 << 29):
                break
        wt = rng.choice([0, 1, 2, 5])
        if wt == 0:
            v = rand_scalar(rng, T_UINT64)
            data = enc_varint(v, pad=rng.choice([0, 0, 1, 3]) if v < (1 << 49) else 0)
        elif wt == 1:
            data = rand_bytes(rng, 8)
        elif wt == 5:
            data = rand_bytes(rng, 4)
        else:
            k = rand_len(rng, big)
            data = enc_varint(k, pad=rng.choice([0, 0, 0, 1])) + rand_bytes(rng, k)
        out.append((tag, wt, data))
    return out


def rand_msg(rng, schema, ty, depth=0, big=False, unknown=True, budget=None):
    """a WELL-FORMED message: absent fields hold their initial values, counts match arrays, ...
    `budget` (a one-element list) bounds the total number of values generated for one message tree."""
    if budget is None:
        budget = [400 if big else 150]
    m = schema.msgs[ty]
    slots = []
    cases = {}
    for g in range(m.ngroups):
        members = [f for f in m.fields if f.group == g]
        cases[g] = 0 if (rng.random() < 0.3 or depth > 3) else rng.choice(members).id
    for f in m.fields:
        budget[0] -= 1
        deep = depth >= 3 or budget[0] <= 0
        if f.oneof:
            c = cases[f.group]
            if c == f.id:
                if f.type == T_MESSAGE and deep:
                    # cannot build deeper: unselect the whole group
                    cases[f.group] = 0
                    slots.append(['one', 0, ('zero',)])
                elif f.type not in (T_STRING, T_BYTES, T_MESSAGE) and rng.random() < 0.25:
                    # a selected member holding zero: present all the same (the case word says so), proto2 and proto3
                    slots.append(['one', c, ('w', 0)])
                else:
                    slots.append(['one', c, rand_val(rng, schema, f, depth, big, budget)])
            else:
                slots.append(['one', c, ('zero',)])
        elif f.label == L_REP:
            n = 0 if (deep and f.type == T_MESSAGE) else rng.choice([0, 0, 1, 1, 2, 3, 5])
            if budget[0] <= 0:
                n = 0
            if big and f.type in PACKABLE and rng.random() < 0.1:
                n = rng.choice([12, 13, 32, 64, 127, 128, 129])
            if depth == 0 and f.type != T_MESSAGE and budget[0] > 0 and rng.random() < 0.05:
                # record counts around the sizes of the parser's scanned-member slabs (16, +32, +64, +128, ...)
                n = rng.choice(SLAB_EDGES)
            if n == 0:
                slots.append(['rep', 0, None])
            else:
                if f.type in (T_INT32, T_ENUM) and rng.random() < 0.3:
                    vals = [('w', rng.choice([0xffffffff, 0x80000000, 0xfffffffe])) for _ in range(n)]   # 10-byte elements
                else:
                    vals = [rand_val(rng, schema, f, depth, big, budget) for _ in range(n)]
                slots.append(['rep', n, vals])
        elif f.label == L_REQ:
            if f.type == T_MESSAGE and deep:
                # required sub-message beyond the depth limit: still needed; build a minimal one
                slots.append(['one', 0, ('msg', rand_msg(rng, schema, f.sub, depth + 1, big, budget=budget))])
            else:
                slots.append(['one', 0, rand_val(rng, schema, f, depth, big, budget)])
        elif f.label == L_OPT:
            present = rng.random() < 0.6 and not (deep and f.type == T_MESSAGE)
            if f.type in (T_STRING, T_MESSAGE):
                slots.append(['one', 0, rand_val(rng, schema, f, depth, big, budget) if present else init_val(f)])
            else:
                slots.append(['one', 1 if present else 0, rand_val(rng, schema, f, depth, big, budget) if present else init_val(f)])
        else:  # L_NONE
            present = rng.random() < 0.6 and not (deep and f.type == T_MESSAGE)
            slots.append(['one', 0, rand_val(rng, schema, f, depth, big, budget) if present else init_val(f)])
    # fix up cases changed while iterating
    for i, f in enumerate(m.fields):
        if f.oneof:
            slots[i][1] = cases[f.group]
            if cases[f.group] != f.id:
                slots[i][2] = ('zero',)
    return {'ty': ty, 'slots': [tuple(s) for s in slots], 'unk': rand_unknown(rng, m, big) if unknown else []}


def _slot(f, present, v):
    if not present:
        return ('one', 0, init_val(f))
    q = 1 if (f.label == L_OPT and f.type not in (T_STRING, T_MESSAGE)) else 0
    return ('one', q, v)


def _zero_val(f):
    if f.type == T_STRING:
        return ('str', 'S', b'')
    if f.type == T_BYTES:
        return ('bin', 0, 'B', b'')
    return ('w', 0)


def matrix_earlier(rng, schema, ty, L):
    """an EARLIER occurrence E for the (later) message L of type ty, built so that every cell of the merge matrix
    {E set to something distinctive} x {L absent | L explicitly equal to the declared default | L explicitly
    zero/empty | L set otherwise} and {E absent} x {L set} is hit with equal probability for each singular
    scalar/string/bytes field.  Mutates L's slots (L has not been encoded yet)."""
    m = schema.msgs[ty]
    E = rand_msg(rng, schema, ty, depth=2)
    Ls, Es = list(L['slots']), list(E['slots'])
    for i, f in enumerate(m.fields):
        if f.label == L_REP or f.oneof or f.type == T_MESSAGE:
            continue
        nd = None
        for _ in range(6):
            v = rand_val(rng, schema, f, 9)
            if is_present(Field(f.name, f.id, L_NONE, f.type), ('one', 0, v)) and sem_val(schema, f, v) != sem_val(schema, f, init_val(f)):
                nd = v
                break
        if nd is None:
            continue
        r = rng.randrange(5)
        if r == 4:
            if f.label != L_REQ:
                Es[i] = _slot(f, False, None)
            continue
        Es[i] = _slot(f, True, nd)
        if r == 0 and f.label != L_REQ:
            Ls[i] = _slot(f, False, None)
        elif r == 1 and f.dflt is not None and f.dflt[0] in ('V', 'S', 'B'):
            k, v = f.dflt
            Ls[i] = _slot(f, True, ('w', v) if k == 'V' else ('str', 'S', bytes(v)) if k == 'S' else (('bin', len(v), 'B', bytes(v)) if len(v) else ('bin', 0, 'B', b'')))
        elif r == 2:
            Ls[i] = _slot(f, True, _zero_val(f))
        # r == 3 (or no default declared): L keeps what it has
    L['slots'] = Ls
    E['slots'] = Es
    return E


def lit_val(schema, f, v):
    k = v[0]
    t = f.type
    if t == T_STRING:
        if k == 'zero':
            return 'N'
        cls = v[1]
        return cls if cls in 'NDE' else 'S' + bytes(v[2]).hex()
    if t == T_BYTES:
        if k == 'zero':
            return '0 N'
        return '%d %s' % (v[1], v[2] if v[2] in 'ND' else 'B' + bytes(v[3]).hex())
    if t == T_MESSAGE:
        if k == 'zero' or v[1] is None:
            return 'N'
        return lit(schema, v[1])
    x = 0 if k == 'zero' else v[1]
    return '%08x' % (x & 0xffffffff) if t in IS32 else '%016x' % (x & 0xffffffffffffffff)


def lit(schema, msg):
    m = schema.msgs[msg['ty']]
    out = ['M %d' % msg['ty']]
    for f, s in zip(m.fields, msg['slots']):
        if s[0] == 'rep':
            if s[2] is None:
                out.append('%d N' % s[1])
            else:
                out.append('%d A' % s[1])
                out += [lit_val(schema, f, v) for v in s[2]]
        elif f.oneof:
            out.append('%d %s' % (s[1], lit_val(schema, f, s[2]) if s[1] == f.id else 'Z'))
        else:
            if f.has_q:
                out.append('%d' % s[1])
            out.append(lit_val(schema, f, s[2]))
    out.append('U %d' % len(msg['unk']))
    for tag, wt, data in msg['unk']:
        out.append('%d %d X%s' % (tag, wt, bytes(data).hex()))
    return ' '.join(out)


class LitParser:
    def __init__(s, schema, toks, pos=0):
        s.schema, s.toks, s.pos = schema, toks, pos

    def tok(s):
        t = s.toks[s.pos]
        s.pos += 1
        return t

    def val(s, f):
        t = f.type
        if t == T_STRING:
            x = s.tok()
            if x in ('N', 'D', 'E'):
                d = b''
                if x == 'D' and f.dflt and f.dflt[0] == 'S':
                    d = bytes(f.dflt[1])
                return ('str', x, d)
            return ('str', 'S', bytes.fromhex(x[1:]))
        if t == T_BYTES:
            n = int(s.tok())
            x = s.tok()
            if x == 'N':
                return ('bin', n, 'N', b'')
            if x == 'D':
                return ('bin', n, 'D', bytes(f.dflt[1]) if f.dflt and f.dflt[0] == 'B' else b'')
            return ('bin', n, 'B', bytes.fromhex(x[1:]))
        if t == T_MESSAGE:
            if s.toks[s.pos] == 'N':
                s.pos += 1
                return ('msg', None)
            return ('msg', s.msg())
        return ('w', int(s.tok(), 16))

    def msg(s):
        assert s.tok() == 'M'
        ty = int(s.tok())
        m = s.schema.msgs[ty]
        slots = []
        for f in m.fields:
            if f.oneof:
                c = int(s.tok())
                if c == f.id:
                    slots.append(('one', c, s.val(f)))
                else:
                    assert s.tok() == 'Z'
                    slots.append(('one', c, ('zero',)))
            elif f.label == L_REP:
                n = int(s.tok())
                x = s.tok()
                if x == 'N':
                    slots.append(('rep', n, None))
                else:
                    slots.append(('rep', n, [s.val(f) for _ in range(n)]))
            else:
                q = int(s.tok()) if f.has_q else 0
                slots.append(('one', q, s.val(f)))
        assert s.tok() == 'U'
        nu = int(s.tok())
        unk = []
        for _ in range(nu):
            tag = int(s.tok())
            wt = int(s.tok())
            unk.append((tag, wt, bytes.fromhex(s.tok()[1:])))
        return {'ty': ty, 'slots': slots, 'unk': unk}


def parse_lit(schema, text):
    p = LitParser(schema, text.split())
    return p.msg(), p.pos


# ------------------------------------------------------------------------------------------------
# semantic view (what C01 calls "equal"): presence, values bit for bit, order, oneof member, unknowns
# ------------------------------------------------------------------------------------------------
def sem_val(schema, f, v):
    t = f.type
    if t == T_STRING:
        if v[0] == 'zero' or v[1] == 'N':
            return None
        return bytes(v[2])
    if t == T_BYTES:
        if v[0] == 'zero':
            return b''
        return bytes(v[3][:v[1]])
    if t == T_MESSAGE:
        if v[0] == 'zero' or v[1] is None:
            return None
        return sem(schema, v[1])
    x = 0 if v[0] == 'zero' else v[1]
    if t == T_BOOL:
        return 1 if x else 0
    return x & (0xffffffff if t in IS32 else 0xffffffffffffffff)


def is_present(f, s):
    """presence as the serialiser sees it"""
    q, v = s[1], s[2]
    t = f.type
    absent_ptr = (v[0] == 'zero') or (t == T_STRING and v[1] in ('N', 'D')) or (t == T_MESSAGE and v[1] is None)
    if f.oneof:
        if q != f.id:
            return False
        if t in (T_STRING, T_MESSAGE):
            return not absent_ptr
        return True
    if f.label == L_REQ:
        return True
    if f.label == L_OPT:
        if t in (T_STRING, T_MESSAGE):
            return not absent_ptr
        return q != 0
    # L_NONE: omitted iff zeroish
    if t == T_STRING:
        return not (v[0] == 'zero' or v[1] == 'N' or len(v[2]) == 0)
    if t == T_BYTES:
        return not (v[0] == 'zero' or v[1] == 0)      # field_is_zeroish reads the first word: len
    if t == T_MESSAGE:
        return not absent_ptr
    x = 0 if v[0] == 'zero' else v[1]
    return x != 0


def sem(schema, msg):
    """(fields: {id: ('absent', default) | ('present', value) | ('rep', [values])}, oneof cases, unknown list)"""
    m = schema.msgs[msg['ty']]
    out = {}
    for f, s in zip(m.fields, msg['slots']):
        if s[0] == 'rep':
            out[f.id] = ('rep', [sem_val(schema, f, v) for v in (s[2] or [])[:s[1]]])
        elif f.oneof:
            if s[1] == f.id:
                out[f.id] = ('sel', sem_val(schema, f, s[2]))
            else:
                out[f.id] = ('unsel',)
        else:
            if is_present(f, s):
                out[f.id] = ('present', sem_val(schema, f, s[2]))
            else:
                # absent: must hold the default (what init gives), compared as value
                v = s[2]
                if f.type == T_BYTES and v[0] != 'zero':
                    out[f.id] = ('absent', bytes(v[3][:v[1]]))
                elif f.type == T_STRING:
                    out[f.id] = ('absent', sem_val(schema, f, v) or b'')
                else:
                    out[f.id] = ('absent', sem_val(schema, f, v))
    return (out, [(t, w, bytes(d)) for t, w, d in msg['unk']])


# ------------------------------------------------------------------------------------------------
# independent wire encoder (Python), with knobs to produce non-canonical but valid encodings
# ------------------------------------------------------------------------------------------------
def enc_varint(v, pad=0):
    """base-128 varint of v followed by `pad` redundant zero groups (still a valid encoding)"""
    groups = []
    while True:
        groups.append(v & 0x7f)
        v >>= 7
        if not v:
            break
    groups += [0] * pad
    return bytes([g | 0x80 for g in groups[:-1]] + [groups[-1]])


def zz32(x):
    x &= 0xffffffff
    return ((x << 1) ^ (0xffffffff if x >> 31 else 0)) & 0xffffffff


def zz64(x):
    x &= 0xffffffffffffffff
    return ((x << 1) ^ (0xffffffffffffffff if x >> 63 else 0)) & 0xffffffffffffffff


def enc_scalar(t, x, rng=None, pad=False):
    p = 0
    if t in (T_INT32, T_ENUM):
        x &= 0xffffffff
        v = x | (0xffffffff00000000 if x >> 31 else 0)
    elif t == T_UINT32:
        v = x & 0xffffffff
    elif t == T_SINT32:
        v = zz32(x)
    elif t in (T_INT64, T_UINT64):
        v = x & 0xffffffffffffffff
    elif t == T_SINT64:
        v = zz64(x)
    elif t == T_BOOL:
        v = 1 if x else 0
    elif t in (T_SFIXED32, T_FIXED32, T_FLOAT):
        return struct.pack('<I', x & 0xffffffff)
    elif t in (T_SFIXED64, T_FIXED64, T_DOUBLE):
        return struct.pack('<Q', x & 0xffffffffffffffff)
    else:
        raise ValueError(t)
    if pad and rng is not None:
        n = len(enc_varint(v))
        if n < 10 and rng.random() < 0.4:
            p = rng.randrange(1, 10 - n + 1)
    return enc_varint(v, p)


def enc_key(num, wt, rng=None, pad=False):
    v = (num << 3) | wt
    p = 0
    if pad and rng is not None and rng.random() < 0.2:
        n = len(enc_varint(v))
        if n < 5:
            p = rng.randrange(1, 5 - n + 1)
    return enc_varint(v, p)


def enc_len(n, rng=None, pad=False):
    p = 0
    if pad and rng is not None and rng.random() < 0.2:
        k = len(enc_varint(n))
        if k < 5:
            p = rng.randrange(1, 5 - k + 1)
    return enc_varint(n, p)


def enc_elem(schema, f, v, rng, knobs):
    """one occurrence of field f with value v: list of (field id, bytes) records"""
    t = f.type
    pad = knobs.get('pad', False)
    if t == T_STRING:
        b = bytes(v[2]) if v[0] != 'zero' else b''
        return enc_key(f.id, 2, rng, pad) + enc_len(len(b), rng, pad) + b
    if t == T_BYTES:
        b = bytes(v[3][:v[1]]) if v[0] != 'zero' else b''
        return enc_key(f.id, 2, rng, pad) + enc_len(len(b), rng, pad) + b
    if t == T_MESSAGE:
        b = encode(schema, v[1], rng, knobs) if (v[0] != 'zero' and v[1] is not None) else b''
        return enc_key(f.id, 2, rng, pad) + enc_len(len(b), rng, pad) + b
    x = 0 if v[0] == 'zero' else v[1]
    return enc_key(f.id, wire_type(t), rng, pad) + enc_scalar(t, x, rng, pad)


def _type_has_msg_oneof(schema, ty):
    return any(f.oneof and f.type == T_MESSAGE for f in schema.msgs[ty].fields)


def encode_records(schema, msg, rng=None, knobs=None):
    """list of records (bytes) in canonical order: fields by descriptor order, then unknowns"""
    knobs = knobs or {}
    m = schema.msgs[msg['ty']]
    recs = []
    top_knobs = knobs
    if knobs.get('ref_compared'):
        # everything encoded below this message is 'nested' (see the F23 note further down)
        knobs_sub = dict(knobs, multi_oneof=False, nested=True)
    else:
        knobs_sub = knobs
    for fi, (f, s) in enumerate(zip(m.fields, msg['slots'])):
        if fi in msg.get('drop', ()):
            continue                      # deliberately left off the wire (C11 generator)
        if s[0] == 'rep':
            vals = (s[2] or [])[:s[1]]
            if knobs.get('overlong') and f.type in PACKABLE and f.type not in WT and rng.random() < 0.5:
                # INVALID on purpose (hostile input): a packed record with an element of 11..16 continuation bytes
                k = rng.choice([10, 11, 11, 12, 16])
                payload = bytes([0x80 | rng.getrandbits(7) for _ in range(k)]) + bytes([rng.getrandbits(7)])
                if rng.random() < 0.5:
                    payload = enc_varint(rng.getrandbits(20)) + payload + enc_varint(rng.getrandbits(7))
                recs.append(enc_key(f.id, 2) + enc_varint(len(payload)) + payload)
            if knobs.get('empty_packed') and f.type in PACKABLE and rng.random() < 0.4:
                # a packed record with zero elements: valid, contributes nothing
                recs.append(enc_key(f.id, 2, rng, knobs.get('pad', False)) + b'\x00')
            if not vals:
                continue
            packed = f.packed
            if knobs.get('flip_packed') and f.type in PACKABLE and rng.random() < 0.5:
                packed = not packed
            if packed and f.type in PACKABLE:
                if knobs.get('split_packed') and len(vals) > 1 and rng.random() < 0.5:
                    k = rng.randrange(1, len(vals))
                    groups = [vals[:k], vals[k:]]
                else:
                    groups = [vals]
                for gvals in groups:
                    payload = b''.join(enc_scalar(f.type, v[1] if v[0] != 'zero' else 0, rng, knobs.get('pad', False)) for v in gvals)
                    recs.append(enc_key(f.id, 2, rng, knobs.get('pad', False)) + enc_len(len(payload), rng, knobs.get('pad', False)) + payload)
            else:
                for v in vals:
                    recs.append(enc_elem(schema, f, v, rng, knobs_sub))
        else:
            if not is_present(f, s):
                if (knobs.get('explicit_zero') and f.label == L_NONE and not f.oneof and f.type != T_MESSAGE and rng.random() < 0.5):
                    # an implicit-presence field holding zero / "" written out all the same: valid wire data no canonical
                    # serialiser produces (a string then arrives as a separately allocated empty block)
                    recs.append(enc_elem(schema, f, _zero_val(f), rng, knobs))
                continue
            if knobs.get('omit_req_dflt') and f.label == L_REQ and f.dflt is not None and rng.random() < 0.5:
                continue                  # a required field WITH a declared default may be left off the wire: the parser
                                          # accepts and the member holds the default (generated or generic initialiser alike)
            if knobs.get('stale') and f.type not in (T_MESSAGE,) and not f.oneof and rng.random() < 0.3:
                # an earlier, overridden occurrence of a singular scalar/string/bytes field
                recs.append(enc_elem(schema, f, rand_val(rng, schema, f, 9), rng, knobs))
            if knobs.get('multi_oneof') and f.oneof and rng.random() < 0.5 and not (knobs.get('later_occ') and f.type == T_MESSAGE):
                # (not inside a LATER occurrence of an enclosing message when the final member is a message: switching a
                #  oneof away from and back to a message member there is known finding F23, kept as a fixed corpus input)
                # an earlier occurrence of another (or the same) member of the oneof: the last one wins
                others = [g for g in m.fields if g.group == f.group and (g.type != T_MESSAGE)]
                if others:
                    g = rng.choice(others)
                    recs.append(enc_elem(schema, g, rand_val(rng, schema, g, 9), rng, knobs))
            if (knobs.get('multi_occ') and f.type == T_MESSAGE and s[2][0] == 'msg' and s[2][1] is not None and rng.random() < 0.6
                    and not (knobs.get('nested') and _type_has_msg_oneof(schema, f.sub))):
                # (known finding F23 at depth: inside an embedded message that itself arrives in several occurrences or parts,
                #  a sub-message whose oneof is switched away from a message member and back -- by a stale member, or by extra
                #  occurrences selecting different members -- is merged by protobuf-c where the reference starts afresh.
                #  Workloads judged by the reference (`ref_compared`) therefore keep stale oneof members and repeated / split
                #  occurrences of such sub-messages to the top level; the fixed F23 input and the oneof corpora keep the
                #  shapes visible)
                # one or two EARLIER, independent occurrences of the same embedded message (complete in their
                # required fields); what the merge must yield is decided by the reference implementation
                for k in range(rng.choice([1, 1, 2])):
                    e = matrix_earlier(rng, schema, f.sub, s[2][1]) if (knobs.get('matrix') and k == 0) else rand_msg(rng, schema, f.sub, depth=2)
                    body = encode(schema, e, rng, dict(knobs_sub, multi_occ=False, split_msg=False, later_occ=knobs.get('later_occ') or k > 0))
                    recs.append(enc_key(f.id, 2, rng, knobs.get('pad', False)) + enc_len(len(body), rng, knobs.get('pad', False)) + body)
                recs.append(enc_elem(schema, f, s[2], rng, dict(knobs_sub, later_occ=True)))
                continue
            if (knobs.get('split_msg') and f.type == T_MESSAGE and s[2][0] == 'msg' and s[2][1] is not None
                    and not any(x.label == L_REQ for x in schema.msgs[f.sub].fields) and rng.random() < 0.7
                    and not (knobs.get('nested') and _type_has_msg_oneof(schema, f.sub))):
                # the sub-message delivered in 2..3 occurrences that the parser must merge
                sub_recs = encode_records(schema, s[2][1], rng, knobs_sub)
                k = rng.choice([2, 2, 3])
                cuts = sorted(rng.randrange(0, len(sub_recs) + 1) for _ in range(k - 1))
                parts = [sub_recs[a:b] for a, b in zip([0] + cuts, cuts + [len(sub_recs)])]
                for part in parts:
                    body = b''.join(part)
                    recs.append(enc_key(f.id, 2, rng, knobs.get('pad', False)) + enc_len(len(body), rng, knobs.get('pad', False)) + body)
                msg.setdefault('_split', True)
                continue
            recs.append(enc_elem(schema, f, s[2], rng, knobs_sub))
    for tag, wt, data in msg['unk']:
        recs.append(enc_key(tag, wt, rng, knobs.get('pad', False)) + bytes(data))
    return recs


def encode(schema, msg, rng=None, knobs=None):
    knobs = knobs or {}
    recs = encode_records(schema, msg, rng, knobs)
    if knobs.get('shuffle') and rng is not None:
        # any interleaving that keeps the relative order of records of the same field number, and of
        # the unknown fields among themselves (their order is observable), is an equivalent encoding
        known = {f.id for f in schema.msgs[msg['ty']].fields}
        recs = shuffle_keep_same_field_order(recs, rng, known)
    return b''.join(recs)


def first_varint(b):
    v = 0
    s = 0
    for i, x in enumerate(b):
        v |= (x & 0x7f) << s
        s += 7
        if not x & 0x80:
            return v, i + 1
    raise ValueError('unterminated')


def shuffle_keep_same_field_order(recs, rng, known=None):
    keyed = [(first_varint(r)[0] >> 3, r) for r in recs]
    if known is not None:
        keyed = [(k if k in known else -1, r) for k, r in keyed]
    by_field = {}
    order = []
    for k, r in keyed:
        by_field.setdefault(k, []).append(r)
        order.append(k)
    rng.shuffle(order)
    out = []
    for k in order:
        out.append(by_field[k].pop(0))
    return out


# ------------------------------------------------------------------------------------------------
# semantic view in the JSON shape printed by harness/ref_harness.cc
# ------------------------------------------------------------------------------------------------
def canon_unknown(tag, wt, data):
    data = bytes(data)
    if wt == 0:
        return [tag, 0, first_varint(data)[0] & 0xffffffffffffffff]
    if wt == 1:
        return [tag, 1, int.from_bytes(data[:8], 'little')]
    if wt == 5:
        return [tag, 5, int.from_bytes(data[:4], 'little')]
    if wt == 2:
        n, k = first_varint(data)
        return [tag, 2, data[k:k + n].hex()]
    return [tag, wt, 0]


def jval(schema, f, v):
    if isinstance(v, bytes):
        return v.hex()
    if isinstance(v, tuple):       # nested sem
        return sem_to_json(schema, f.sub, v)
    return v


def sem_to_json(schema, ty, sm):
    fields, unk = sm
    m = schema.msgs[ty]
    out = {}
    for f in m.fields:
        e = fields[f.id]
        k = e[0]
        if k == 'rep':
            out[str(f.id)] = ['rep', [jval(schema, f, x) for x in e[1]]]
        elif k == 'unsel':
            out[str(f.id)] = ['unsel']
        elif k == 'absent' and f.type == T_MESSAGE:
            out[str(f.id)] = ['absent', None]
        else:
            out[str(f.id)] = [k, jval(schema, f, e[1]) if e[1] is not None else (None if f.type == T_MESSAGE else '')]
    return {'f': out, 'u': [canon_unknown(*u) for u in unk]}


def sem_json(schema, msg):
    return sem_to_json(schema, msg['ty'], sem(schema, msg))
