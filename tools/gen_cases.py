#!/usr/bin/env python3
"""
gen_cases.py -- writes a case file for one check.  Everything is derived from one PRNG seeded by
(seed, kind), so a disagreement replays exactly.

usage: gen_cases.py <kind> <seed> <n> <outfile> [--big]
kinds: msg      schemas x well-formed messages: pack / rt / check / init
       leaf     boundary-heavy inputs for every translated leaf function
       append   append histories for the simple buffer
"""
import sys, random, os, json
sys.path.insert(0, os.path.dirname(os.path.abspath(__file__)))
import pbgen
from pbgen import *


def gen_msg_cases(rng, n, big):
    lines = []
    stats = {'schemas': 0, 'msgs': 0}
    while stats['msgs'] < n:
        sch = rand_schema(rng, big=big)
        lines += sch.lines()
        stats['schemas'] += 1
        for ty in range(len(sch.msgs)):
            lines.append('init %d' % ty)
        for _ in range(rng.choice([4, 8, 12])):
            ty = rng.randrange(len(sch.msgs))
            m = rand_msg(rng, sch, ty, big=big)
            l = lit(sch, m)
            lines.append('pack ' + l)
            lines.append('rt ' + l)
            lines.append('check ' + l)
            stats['msgs'] += 1
    return lines, stats


def mutate(rng, b):
    b = bytearray(b)
    r = rng.random()
    if not b:
        return bytes([rng.getrandbits(8) for _ in range(rng.randrange(1, 4))])
    if r < 0.25:
        return bytes(b[:rng.randrange(0, len(b))])                     # truncation
    if r < 0.5:
        i = rng.randrange(len(b)); b[i] ^= 1 << rng.randrange(8)       # bit flip
        return bytes(b)
    if r < 0.65:
        i = rng.randrange(len(b)); b[i] = rng.choice([0, 0x7f, 0x80, 0xff, rng.getrandbits(8)])
        return bytes(b)
    if r < 0.8:
        i = rng.randrange(len(b) + 1)
        ins = bytes(rng.choice([0x80, 0xff, 0, rng.getrandbits(8)]) for _ in range(rng.randrange(1, 12)))
        return bytes(b[:i]) + ins + bytes(b[i:])
    if r < 0.9:
        i = rng.randrange(len(b)); j = rng.randrange(i, len(b) + 1)
        return bytes(b[:i]) + bytes(b[j:])                              # splice out
    return bytes(b) + bytes(b[rng.randrange(len(b)):])                  # duplicate tail


def late_failure(rng, sch, ty, base):
    """a well-framed input that passes the scan pass (and the required-field check, if `base` does) and fails only in the
    parse pass: a known field sent with a wire type its type does not accept"""
    fs = [f for f in sch.msgs[ty].fields if f.type != T_BOOL]
    if not fs:
        return None
    f = rng.choice(fs)
    wt = rng.choice([w for w in (0, 1, 2, 5) if w != wire_type(f.type) and not (w == 2 and f.label == L_REP and f.type in PACKABLE)])
    rec = enc_key(f.id, wt) + {0: b'\x01', 1: bytes(8), 5: bytes(4), 2: b'\x01a'}[wt]
    pos = rng.choice(['end', 'end', 'start'])
    return base + rec if pos == 'end' else rec + base


def oneof_switch_fail(rng, sch, ty, base):
    """a oneof member is set (preferably one that owns memory and is wider than the others), then another member of the same
    oneof arrives with a wire type it does not accept: the first member has been released, the parse fails, and the
    clean-up must not release it again (seeded change S66)"""
    m = sch.msgs[ty]
    groups = {}
    for f in m.fields:
        if f.oneof:
            groups.setdefault(f.group, []).append(f)
    groups = [g for g in groups.values() if len(g) >= 2]
    if not groups:
        return None
    g = rng.choice(groups)
    wide = [f for f in g if f.type in (T_BYTES, T_STRING)]
    a = rng.choice(wide) if (wide and rng.random() < 0.8) else rng.choice([f for f in g if f.type != T_MESSAGE] or g)
    if a.type == T_MESSAGE:
        return None
    bcands = [f for f in g if f is not a]
    b = rng.choice(bcands)
    va = ('bin', 5, 'B', b'owned') if a.type == T_BYTES else ('str', 'S', b'owned') if a.type == T_STRING else rand_val(rng, sch, a, 9)
    rec_a = enc_elem(sch, a, va, rng, {})
    if b.type == T_MESSAGE and rng.random() < 0.5:
        rec_b = enc_key(b.id, 2) + b'\x02\xff\xff'          # right wire type, malformed embedded message
    else:
        wt = rng.choice([w for w in (0, 1, 2, 5) if w != wire_type(b.type)])
        rec_b = enc_key(b.id, wt) + {0: b'\x01', 1: bytes(8), 5: bytes(4), 2: b'\x01a'}[wt]
    return base + rec_a + rec_b


def gen_wire_cases(rng, n, big, ops=('unpack', 'acc')):
    lines = []
    stats = {'schemas': 0, 'valid': 0, 'knobbed': 0, 'mutated': 0, 'random': 0}
    total = 0
    while total < n:
        sch = rand_schema(rng, big=big or rng.random() < 0.08)      # now and then a message type with > 128 fields
        lines += sch.lines()
        stats['schemas'] += 1
        for _ in range(rng.choice([3, 6, 10])):
            ty = rng.randrange(len(sch.msgs))
            m = rand_msg(rng, sch, ty, big=big)
            encs = [('valid', encode(sch, m))]
            late = late_failure(rng, sch, ty, encs[0][1])
            if late is not None:
                encs.append(('mutated', late))
            sw = oneof_switch_fail(rng, sch, ty, encs[0][1])
            if sw is not None:
                encs.append(('mutated', sw))
            for _ in range(2):
                knobs = {'pad': rng.random() < 0.6, 'flip_packed': rng.random() < 0.5, 'split_packed': rng.random() < 0.5,
                         'stale': rng.random() < 0.5, 'shuffle': rng.random() < 0.6, 'empty_packed': rng.random() < 0.4,
                         'multi_oneof': rng.random() < 0.4, 'omit_req_dflt': rng.random() < 0.4,
                         # embedded messages occurring more than once: the parser merges them (every path of merge_messages is
                         # reachable from hostile or merely unusual input, seeded change S75)
                         'multi_occ': rng.random() < 0.35, 'split_msg': rng.random() < 0.35, 'explicit_zero': rng.random() < 0.3}
                encs.append(('knobbed', encode(sch, m, rng, knobs)))
            base = encs[rng.randrange(len(encs))][1]
            for _ in range(3):
                encs.append(('mutated', mutate(rng, base)))
            if rng.random() < 0.5:
                encs.append(('mutated', encode(sch, m, rng, {'overlong': True, 'shuffle': rng.random() < 0.5})))
            if rng.random() < 0.3:
                encs.append(('random', bytes(rng.getrandbits(8) for _ in range(rng.randrange(0, 24)))))
            if rng.random() < 0.4:
                # the parser is lenient about 5-byte keys: field numbers 2^29 .. 2^32-1 are accepted and kept as unknown
                # fields; whatever it accepts must be measured and written consistently
                extra = b''
                for _ in range(rng.choice([1, 1, 2, 3])):
                    num = rng.choice([1 << 29, (1 << 29) + 1, (1 << 29) + 15, (1 << 29) + 16, (1 << 30) + 5, (1 << 31), (1 << 32) - 1,
                                      (1 << 29) + (1 << 25) - 1, (1 << 29) + (1 << 25), rng.randrange(1 << 29, 1 << 32)])
                    wt = rng.choice([0, 1, 2, 5])
                    extra += enc_varint((num << 3) | wt)
                    extra += {0: enc_varint(rng.getrandbits(rng.choice([3, 20, 64]))), 1: bytes(8), 5: b'\x01\x02\x03\x04',
                              2: b'\x03abc'}[wt]
                encs.append(('mutated', extra + base if rng.random() < 0.5 else base + extra))
            for kind, b in encs:
                stats[kind] += 1
                for op in ops:
                    lines.append('%s %d X%s' % (op, ty, b.hex()))
                total += 1
    return lines, stats


def drop_required(rng, sch, msg, depth=0):
    """return a copy of msg in which ONE required field without default, at some depth, is made
    absent on the wire (by marking its slot with a sentinel), or None if there is none"""
    import copy
    m = sch.msgs[msg['ty']]
    cands = []
    def walk(mm, path):
        md = sch.msgs[mm['ty']]
        for i, (f, s) in enumerate(zip(md.fields, mm['slots'])):
            if f.label == L_REQ and f.dflt is None:
                cands.append(path + [i])
            if f.type == T_MESSAGE:
                if s[0] == 'rep':
                    for k, v in enumerate((s[2] or [])[:s[1]]):
                        if v[1] is not None:
                            walk(v[1], path + [(i, k)])
                elif is_present(f, s) and s[2][0] == 'msg' and s[2][1] is not None:
                    walk(s[2][1], path + [(i, None)])
    walk(msg, [])
    if not cands:
        return None
    path = rng.choice(cands)
    new = copy.deepcopy(msg)
    cur = new
    for step in path[:-1]:
        i, k = step
        s = cur['slots'][i]
        cur = s[2][k][1] if k is not None else s[2][1]
    cur.setdefault('drop', set()).add(path[-1])
    return new


def gen_req_cases(rng, n, big):
    lines = []
    stats = {'schemas': 0, 'complete': 0, 'one_missing': 0, 'depth_missing': 0}
    total = 0
    while total < n:
        sch = rand_schema(rng, big=big, syntax=2, allow_generic=True)
        # bias towards required fields
        for m in sch.msgs:
            for f in m.fields:
                if f.label == L_OPT and not f.oneof and rng.random() < 0.5:
                    f.label = L_REQ
                    if f.type == T_MESSAGE and f.sub <= sch.msgs.index(m):
                        f.label = L_OPT
                    f.flags &= ~F_ONEOF
        if not any(f.label == L_REQ for m in sch.msgs for f in m.fields):
            continue
        lines += sch.lines()
        stats['schemas'] += 1
        for _ in range(rng.choice([4, 8])):
            ty = rng.randrange(len(sch.msgs))
            m = rand_msg(rng, sch, ty, big=False)
            knobs = {'pad': rng.random() < 0.3, 'shuffle': rng.random() < 0.7, 'stale': rng.random() < 0.3, 'flip_packed': rng.random() < 0.3}
            b = encode(sch, m, rng, knobs)
            lines.append('unpack %d X%s #expect=ok' % (ty, b.hex()))
            stats['complete'] += 1
            total += 1
            for _ in range(2):
                d = drop_required(rng, sch, m)
                if d is None:
                    break
                b = encode(sch, d, rng, knobs)
                lines.append('unpack %d X%s #expect=fail' % (ty, b.hex()))
                stats['one_missing'] += 1
                total += 1
    return lines, stats


def gen_alloc_cases(rng, n, big, faults):
    """C07 (faults=False): valid / knobbed / merged / mutated inputs with a recording allocator.
       C08 (faults=True): for each input: refuse only the k-th request for every k, refuse the k-th and all later,
       and random subsets."""
    lines = []
    stats = {'schemas': 0, 'inputs': 0, 'masks': 0}
    while stats['inputs'] < n:
        # half of the schemas are rich in fields that own heap blocks (strings, bytes, sub-messages)
        sch = rand_schema(rng, big=big or rng.random() < 0.08,
                          types=([T_STRING] * 4 + [T_BYTES] * 3 + [T_MESSAGE] * 3 + list(range(17))) if rng.random() < 0.5 else None)
        # some schemas have a message type with more than 128 fields: the required-field bitmap is then a heap block
        # of its own, with its own allocation, failure and release sites (seeded change S57)
        wide = []
        if stats['schemas'] == 1 or rng.random() < 0.08:       # the second schema of every run, and one in twelve after
            for _try in range(60):
                cand = rand_schema(rng, nmsgs=rng.choice([1, 2]), big=True, syntax=2,
                                   types=([T_STRING] * 3 + [T_BYTES] * 2 + [T_MESSAGE] + list(range(17))))
                wide = [i for i, m in enumerate(cand.msgs) if len(m.fields) > 128]
                if wide:
                    sch = cand
                    break
        lines += sch.lines()
        stats['schemas'] += 1
        stats['wide_schemas'] = stats.get('wide_schemas', 0) + (1 if wide else 0)
        for _ in range(rng.choice([3, 5])):
            ty = rng.choice(wide) if (wide and rng.random() < 0.7) else rng.randrange(len(sch.msgs))
            m = rand_msg(rng, sch, ty, big=False)
            knobs = {'pad': rng.random() < 0.3, 'flip_packed': rng.random() < 0.4, 'split_packed': rng.random() < 0.5,
                     'stale': rng.random() < 0.6, 'shuffle': rng.random() < 0.5, 'empty_packed': rng.random() < 0.3,
                     'split_msg': rng.random() < 0.5, 'multi_occ': rng.random() < 0.5, 'multi_oneof': rng.random() < 0.6,
                     'explicit_zero': rng.random() < 0.5}
            b = encode(sch, m, rng, knobs)
            r = rng.random()
            if r < 0.2:
                b = mutate(rng, b)
            elif r < 0.35:
                b = late_failure(rng, sch, ty, b) or b
            stats['inputs'] += 1
            if not faults:
                lines.append('unpackf %d X%s - 0' % (ty, b.hex()))
                lines.append('unpacksys %d X%s' % (ty, b.hex()))
                continue
            # how many requests does a fault-free run make?  bound it generously by len/1 + fields
            nreq = min(60, 4 + len(b))
            for k in range(nreq):
                lines.append('unpackf %d X%s %s 0' % (ty, b.hex(), '0' * k + '1'))
                lines.append('unpackf %d X%s %s 1' % (ty, b.hex(), '0' * k + '1'))
                stats['masks'] += 2
            for _ in range(6):
                mask = ''.join(rng.choice('0001') for _ in range(nreq))
                lines.append('unpackf %d X%s %s %d' % (ty, b.hex(), mask, rng.choice([0, 0, 1])))
                stats['masks'] += 1
    return lines, stats


def gen_enc_cases(rng, n, big):
    """C03: well-formed messages to be packed by protobuf-c (the oracle re-decodes with the reference)"""
    lines, stats = [], {'schemas': 0, 'msgs': 0}
    while stats['msgs'] < n:
        sch = rand_schema(rng, big=big, allow_generic=False)
        lines += sch.lines()
        stats['schemas'] += 1
        for _ in range(rng.choice([4, 8])):
            ty = rng.randrange(len(sch.msgs))
            m = rand_msg(rng, sch, ty, big=big)
            lines.append('pack ' + lit(sch, m))
            stats['msgs'] += 1
    return lines, stats


def gen_valid_cases(rng, n, big, merge=False):
    """C04 (merge=False): re-encodings that differ from the canonical one in order, packedness, varint padding,
    stale scalar occurrences, empty packed records, interleaved unknown fields.
    C10 (merge=True): additionally sub-messages split over several occurrences and several oneof members in sequence."""
    lines, stats = [], {'schemas': 0, 'encodings': 0, 'canonical': 0, 'split': 0}
    while stats['encodings'] < n:
        if merge:
            # bias towards embedded messages (incl. inside oneofs) so that there is something to merge
            # and towards declared defaults / present-but-default values: what a later occurrence holds then looks
            # exactly like "unset" to a merge that compares values instead of presence
            sch = rand_schema(rng, big=big, types=[T_MESSAGE] * 6 + [T_STRING, T_BYTES] * 2 + list(range(17)), nmsgs=rng.choice([2, 3, 3]), dflt_p=0.6)
            pbgen.DEFAULT_EQ_P = 0.4
        else:
            sch = rand_schema(rng, big=big)
        lines += sch.lines()
        stats['schemas'] += 1
        for _ in range(rng.choice([3, 6])):
            ty = rng.randrange(len(sch.msgs))
            m = rand_msg(rng, sch, ty, big=False)
            if not merge:
                lines.append('unpack %d X%s' % (ty, encode(sch, m).hex()))
                stats['canonical'] += 1
                stats['encodings'] += 1
            for _ in range(3):
                knobs = {'pad': rng.random() < 0.6, 'flip_packed': rng.random() < 0.5, 'split_packed': rng.random() < 0.5,
                         'stale': rng.random() < 0.5, 'shuffle': rng.random() < 0.6, 'empty_packed': rng.random() < 0.4}
                if merge:
                    knobs['split_msg'] = rng.random() < 0.6
                    knobs['multi_occ'] = rng.random() < 0.7
                    knobs['multi_oneof'] = rng.random() < 0.7
                    knobs['matrix'] = rng.random() < 0.5
                    knobs['ref_compared'] = True      # judged by the reference: do not emit the known F23 shape at depth
                b = encode(sch, m, rng, knobs)
                lines.append('unpack %d X%s' % (ty, b.hex()))
                stats['encodings'] += 1
    return lines, stats


def old_schema(rng, sch):
    """old = new with an arbitrary subset of fields removed (per message type)"""
    import copy
    old = copy.deepcopy(sch)
    for m in old.msgs:
        keep = [f for f in m.fields if rng.random() < 0.6]
        # group numbering must stay dense
        groups = sorted({f.group for f in keep if f.group >= 0})
        remap = {g: i for i, g in enumerate(groups)}
        for f in keep:
            if f.group >= 0:
                f.group = remap[f.group]
        m.fields = keep
        m.ngroups = len(groups)
    return old


def gen_compat_cases(rng, n, big):
    """C09: `#new` lines carry the new schema and the original message; the ops run under the OLD schema"""
    lines, stats = [], {'pairs': 0, 'msgs': 0, 'removed_fields': 0}
    while stats['msgs'] < n:
        new = rand_schema(rng, big=big, allow_generic=False)
        old = old_schema(rng, new)
        stats['pairs'] += 1
        stats['removed_fields'] += sum(len(a.fields) - len(b.fields) for a, b in zip(new.msgs, old.msgs))
        lines += old.lines()
        for _ in range(rng.choice([4, 8])):
            ty = rng.randrange(len(new.msgs))
            m = rand_msg(rng, new, ty, big=False)
            knobs = {'pad': rng.random() < 0.4, 'flip_packed': rng.random() < 0.4, 'shuffle': rng.random() < 0.5,
                     'split_packed': rng.random() < 0.3}
            b = encode(new, m, rng, knobs)
            lines.append('#new ' + json.dumps({'schema': new.lines(), 'lit': lit(new, m)}))
            lines.append('acc %d X%s' % (ty, b.hex()))
            stats['msgs'] += 1
    return lines, stats


def plant_defect(rng, sch, msg):
    """plant ONE defect of the kinds C19 lists at a random position that serialisation needs; returns
    (new message, description) or None"""
    import copy
    new = copy.deepcopy(msg)
    cands = []

    def walk(mm):
        md = sch.msgs[mm['ty']]
        for i, (f, s) in enumerate(zip(md.fields, mm['slots'])):
            if s[0] == 'rep':
                vals = (s[2] or [])[:s[1]]
                if s[1] > 0 and f.label == L_REP:
                    cands.append((mm, i, None, 'array'))
                for k, v in enumerate(vals):
                    if f.type in (T_STRING, T_MESSAGE):
                        cands.append((mm, i, k, 'nullelem'))
                    if f.type == T_BYTES:
                        cands.append((mm, i, k, 'bytes'))
                    if f.type == T_MESSAGE and v[1] is not None:
                        walk(v[1])
            else:
                if not is_present(f, s) and f.label != L_REQ:
                    continue
                if f.label == L_REQ and f.type in (T_STRING, T_MESSAGE):
                    cands.append((mm, i, None, 'reqnull'))
                if f.type == T_BYTES:
                    cands.append((mm, i, None, 'bytes'))
                if f.type == T_MESSAGE and s[2][0] == 'msg' and s[2][1] is not None:
                    walk(s[2][1])
    walk(new)
    if not cands:
        return None
    mm, i, k, kind = rng.choice(cands)
    f = sch.msgs[mm['ty']].fields[i]
    s = list(mm['slots'][i])
    if kind == 'array':
        s[2] = None
    elif kind == 'nullelem':
        s[2] = list(s[2]); s[2][k] = ('str', 'N', b'') if f.type == T_STRING else ('msg', None)
    elif kind == 'reqnull':
        s[2] = ('str', 'N', b'') if f.type == T_STRING else ('msg', None)
    elif kind == 'bytes':
        n = rng.choice([1, 2, 5, 127, 128])
        if k is None:
            s[2] = ('bin', n, 'N', b'')
            if f.label == L_OPT and not f.oneof:
                s[1] = rng.choice([1, 1, 2, 255])      # any non-zero has_ value means present for pack()
        else:
            s[2] = list(s[2]); s[2][k] = ('bin', n, 'N', b'')
    mm['slots'][i] = tuple(s)
    return new, '%s in field %d (type %s, label %d%s)' % (kind, f.id, TYPE_NAMES[f.type], f.label, ', oneof' if f.oneof else '')


def gen_defect_cases(rng, n, big):
    lines, stats = [], {'schemas': 0, 'well_formed': 0, 'defective': 0, 'kinds': {}}
    while stats['well_formed'] + stats['defective'] < n:
        sch = rand_schema(rng, big=big, types=[T_STRING, T_BYTES, T_MESSAGE] * 3 + list(range(17)), nmsgs=rng.choice([2, 3]))
        if rng.random() < 0.4:
            # a message type WITHOUT fields used as a sub-message (marker messages): a pointer to it can still be NULL,
            # an array of it can still be missing
            sch.msgs[-1].fields = []
            sch.msgs[-1].ngroups = 0
            for mm in sch.msgs[:-1]:
                for f in mm.fields:
                    if f.type == T_MESSAGE and rng.random() < 0.6:
                        f.sub = len(sch.msgs) - 1
        lines += sch.lines()
        stats['schemas'] += 1
        for _ in range(rng.choice([4, 8])):
            ty = rng.randrange(len(sch.msgs))
            m = rand_msg(rng, sch, ty, big=False)
            l = lit(sch, m)
            lines.append('check %s #expect=1' % l)
            lines.append('pack ' + l)
            stats['well_formed'] += 1
            for _ in range(3):
                r = plant_defect(rng, sch, m)
                if r is None:
                    break
                d, what = r
                lines.append('check %s #expect=0 #%s' % (lit(sch, d), what.replace(' ', '_')))
                stats['defective'] += 1
                k = what.split()[0]
                stats['kinds'][k] = stats['kinds'].get(k, 0) + 1
    return lines, stats


def gen_lookup_cases(rng, n, big):
    lines, stats = [], {'schemas': 0, 'number_keys': 0, 'name_keys': 0, 'tables': 0}
    while stats['number_keys'] + stats['name_keys'] < n:
        sch = rand_schema(rng, big=True, max_fields=12)
        # names in every relation to each other: prefixes, extensions, case, shared stems
        for m in sch.msgs:
            stems = ['a', 'ab', 'abc', 'abd', 'b', 'B', 'a_b', 'a1', 'z', 'zz', 'aB', 'Ab', 'a-b', 'a.b', 'value', 'value2', 'val']
            used = set()
            for f in m.fields:
                nm = rng.choice(stems) + rng.choice(['', '', str(f.id), 'x'])
                while nm in used:
                    nm += rng.choice('abxyz01_')
                used.add(nm)
                f.name = nm
        lines += sch.lines()
        stats['schemas'] += 1
        for ty, m in enumerate(sch.msgs):
            ids = [f.id for f in m.fields]
            keys = set(ids) | {i + 1 for i in ids} | {i - 1 for i in ids} | {0, 1, 2 ** 29 - 1, 2 ** 29, 2 ** 31 - 1, 2 ** 31, 2 ** 32 - 1}
            keys |= {rng.getrandbits(32) for _ in range(3)}
            for k in sorted(x for x in keys if 0 <= x < 2 ** 32):
                lines.append('lookup fnum %d %d' % (ty, k))
                stats['number_keys'] += 1
            names = [f.name for f in m.fields]
            cand = set(names)
            for nm in names:
                cand |= {nm[:-1], nm + 'a', nm + '0', nm.upper(), nm.lower(), nm[:1], nm + nm}
            cand |= {'a', 'b', 'zzzz', 'A', '_', '0'}
            for nm in sorted(c for c in cand if c and ' ' not in c):
                lines.append('lookup fname %d %s' % (ty, nm))
                stats['name_keys'] += 1
    # raw range tables incl. negative / extreme values (enum value tables)
    for _ in range(max(10, n // 20)):
        nvals = rng.choice([1, 2, 3, 5, 9, 20, 60])
        vals = set()
        while len(vals) < nvals:
            r = rng.random()
            if r < 0.3:
                vals.add(rng.choice([-2 ** 31, -2 ** 31 + 1, -1, 0, 1, 2 ** 31 - 2, 2 ** 31 - 1]))
            elif r < 0.7:
                base = rng.randrange(-50, 50)
                for d in range(rng.randrange(1, 4)):
                    vals.add(base + d)
            else:
                vals.add(rng.randrange(-2 ** 31, 2 ** 31))
        vals = sorted(vals)
        ranges = []
        for i, v in enumerate(vals):
            if i == 0 or v != vals[i - 1] + 1:
                ranges.append((v, i))
        keys = set(vals) | {v + 1 for v in vals} | {v - 1 for v in vals} | {0, 1, -1, 2 ** 31 - 1, -2 ** 31}
        keys = sorted(k for k in keys if -2 ** 31 <= k < 2 ** 31)
        lines.append('ranges %d %s 0 %d %s #vals=%s' % (len(ranges), ' '.join('%d %d' % r for r in ranges), len(vals),
                                                        ' '.join(map(str, keys)), ','.join(map(str, vals))))
        stats['tables'] += 1
    return lines, stats


def u_bounds(w):
    return pbgen.B32 if w == 32 else pbgen.B64


def gen_leaf_cases(rng, n):
    lines = []
    def buf10():
        r = rng.random()
        if r < 0.3:
            k = rng.randrange(0, 11)
            return 'X' + (bytes([0x80 | rng.getrandbits(7) for _ in range(k)]) + bytes([rng.getrandbits(7)]) + bytes(rng.getrandbits(8) for _ in range(10)))[:10].hex()
        if r < 0.4:
            return 'X' + (bytes([rng.choice([0x80, 0xff])]) * 10).hex()
        return 'X' + bytes(rng.getrandbits(8) for _ in range(10)).hex()
    for fn, w in (('get_tag_size', 32), ('uint32_size', 32), ('int32_size', 32), ('zigzag32', 32), ('sint32_size', 32),
                  ('uint64_size', 64), ('zigzag64', 64), ('sint64_size', 64), ('unzigzag32', 32), ('unzigzag64', 64)):
        for v in u_bounds(w) + [rng.getrandbits(w) for _ in range(n)]:
            lines.append('leaf %s %d' % (fn, v))
    for fn, w in (('uint32_pack', 32), ('int32_pack', 32), ('sint32_pack', 32), ('uint64_pack', 64), ('sint64_pack', 64),
                  ('fixed32_pack', 32), ('fixed64_pack', 64), ('boolean_pack', 32), ('tag_pack', 32)):
        for v in u_bounds(w) + [rng.getrandbits(w) for _ in range(n)]:
            lines.append('leaf %s %d X%s' % (fn, v, bytes([rng.getrandbits(8)] * 10).hex()))
    for t in range(17):
        for fn in ('get_type_min_size', 'sizeof_elt_in_repeated_array', 'is_packable_type'):
            lines.append('leaf %s %d' % (fn, t))
    for _ in range(4 * n):
        ln = rng.randrange(1, 11)
        b = buf10()
        lines.append('leaf parse_uint32 %d %s' % (ln, b))
        lines.append('leaf parse_int32 %d %s' % (ln, b))
        lines.append('leaf parse_uint64 %d %s' % (ln, b))
        lines.append('leaf parse_fixed_uint32 %s' % b)
        lines.append('leaf parse_fixed_uint64 %s' % b)
        lines.append('leaf scan_varint %d %s' % (rng.choice([0, 1, 2, 5, 9, 10, 11, 100, ln]), b))
        L = rng.choice([1, 2, 3, 4, 5, 6, 10, ln])
        lines.append('leaf parse_tag_and_wiretype %d %s 7 7' % (L, b))
        # length scanner: len is the number of bytes available; keep it within the 10-byte window
        lines.append('leaf scan_length_prefixed_data %d %s 0' % (rng.randrange(0, 11), b))
        k = rng.randrange(0, 40)
        data = bytes(rng.choice([0, 0x7f, 0x80, 0xff, rng.getrandbits(8)]) for _ in range(k))
        lines.append('leaf max_b128_numbers %d X%s' % (k, data.hex()))
        lines.append('leaf parse_boolean %d X%s' % (k, bytes(rng.choice([0, 0x80, 0x80, 0, 1, 0xff]) for _ in range(k)).hex()))
    # int_range_lookup over generator-shaped tables
    for _ in range(n):
        nvals = rng.choice([0, 1, 2, 3, 5, 9, 20])
        vals = set()
        while len(vals) < nvals:
            r = rng.random()
            if r < 0.3:
                vals.add(rng.choice([-2 ** 31, -2 ** 31 + 1, -1, 0, 1, 2 ** 31 - 2, 2 ** 31 - 1]))
            elif r < 0.7:
                base = rng.randrange(-50, 50)
                for d in range(rng.randrange(1, 4)):
                    vals.add(base + d)
            else:
                vals.add(rng.randrange(-2 ** 31, 2 ** 31))
        vals = sorted(vals)[:nvals]
        ranges = []
        for i, v in enumerate(vals):
            if i == 0 or v != vals[i - 1] + 1:
                ranges.append((v, i))
        tbl = ' '.join('%d %d' % r for r in ranges) + (' ' if ranges else '') + '0 %d' % len(vals)
        keys = set(vals) | {v + 1 for v in vals} | {v - 1 for v in vals} | {0, 1, -1, 2 ** 31 - 1, -2 ** 31}
        for key in sorted(k for k in keys if -2 ** 31 <= k < 2 ** 31):
            lines.append('leaf int_range_lookup %d %d %s %d' % (len(ranges), len(ranges), tbl, key))
    return lines, {'leaf_cases': len(lines)}


def gen_append_cases(rng, n, exhaustive_small=True):
    lines = []
    if exhaustive_small:
        for cap in range(1, 9):
            opts = sorted({0, 1, max(cap - 1, 0), cap, cap + 1, 2 * cap, 5 * cap})
            import itertools
            for k in (1, 2, 3):
                for seq in itertools.product(opts, repeat=k):
                    # trim the space: keep all length-1/2 histories and a third of the length-3 ones
                    if k == 3 and rng.random() < 0.66:
                        continue
                    lines.append('append %d %d - %s' % (cap, rng.choice([0, 1]), ' '.join(map(str, seq))))
    for _ in range(n):
        cap = rng.choice([1, 2, 3, 7, 8, 16, 100, 128])
        k = rng.randrange(1, 30)
        seq = [rng.choice([0, 1, 2, cap - 1, cap, cap + 1, rng.randrange(0, 300)]) for _ in range(k)]
        custom = rng.choice([0, 1])
        mask = '-'
        if custom and rng.random() < 0.5:
            mask = ''.join(rng.choice('0001') for _ in range(8))
        lines.append('append %d %d %s %s' % (cap, custom, mask, ' '.join(str(max(x, 0)) for x in seq)))
    return lines, {'append_cases': len(lines)}


def main():
    kind, seed, n, out = sys.argv[1], int(sys.argv[2]), int(sys.argv[3]), sys.argv[4]
    big = '--big' in sys.argv
    rng = random.Random('%s/%d' % (kind, seed))
    if kind == 'msg':
        lines, stats = gen_msg_cases(rng, n, big)
    elif kind == 'leaf':
        lines, stats = gen_leaf_cases(rng, n)
    elif kind == 'append':
        lines, stats = gen_append_cases(rng, n)
    elif kind == 'wire':
        lines, stats = gen_wire_cases(rng, n, big)
    elif kind == 'req':
        lines, stats = gen_req_cases(rng, n, big)
    elif kind == 'enc':
        lines, stats = gen_enc_cases(rng, n, big)
    elif kind == 'valid':
        lines, stats = gen_valid_cases(rng, n, big, False)
    elif kind == 'merge':
        lines, stats = gen_valid_cases(rng, n, big, True)
    elif kind == 'compat':
        lines, stats = gen_compat_cases(rng, n, big)
    elif kind == 'defect':
        lines, stats = gen_defect_cases(rng, n, big)
    elif kind == 'lookup':
        lines, stats = gen_lookup_cases(rng, n, big)
    elif kind in ('mt', 'mtwide'):
        # ONE schema, many valid / re-encoded / mutated inputs: the multi-threaded workload (C17)
        sch = rand_schema(rng, nmsgs=3, big=big)
        wide = []
        if kind == 'mtwide':
            # a message type with more than 128 fields (the parser's required-field bitmap no longer fits its stack
            # array) and with required fields, so that whatever the parser keeps per call for wide messages is exercised
            # by several threads at once
            for _try in range(200):
                sch = rand_schema(rng, nmsgs=3, big=True, syntax=2)
                wide = [i for i, m in enumerate(sch.msgs) if len(m.fields) > 128 and any(f.label == L_REQ for f in m.fields)]
                if wide:
                    break
        lines = sch.lines()
        stats = {'inputs': 0, 'wide_types': len(wide)}
        for _ in range(n):
            ty = rng.choice(wide) if (wide and rng.random() < 0.7) else rng.randrange(len(sch.msgs))
            m = rand_msg(rng, sch, ty)
            b = encode(sch, m, rng, {'pad': rng.random() < 0.5, 'shuffle': rng.random() < 0.5, 'split_msg': rng.random() < 0.3,
                                     'flip_packed': rng.random() < 0.3})
            if rng.random() < 0.15:
                b = mutate(rng, b)
            lines.append('unpack %d X%s' % (ty, b.hex()))
            stats['inputs'] += 1
    elif kind == 'alloc':
        lines, stats = gen_alloc_cases(rng, n, big, False)
    elif kind == 'fault':
        lines, stats = gen_alloc_cases(rng, n, big, True)
    else:
        raise SystemExit('unknown kind')
    open(out, 'w').write('\n'.join(lines) + '\n')
    json.dump(stats, open(out + '.stats', 'w'))


if __name__ == '__main__':
    main()
