#!/usr/bin/env python3
"""
extract_facts.py -- source facts of /repo/protobuf-c/protobuf-c.c as Lean data (DESIGN.md 3.3),
regenerated on every run; theorems `decide` over them (C16, C17).

  Pbc.Extract.Facts.globals       every object with static storage duration defined in the file
                                  (file scope and function-local `static`), with const-ness
  Pbc.Extract.Facts.globalStores  every assignment / compound assignment / ++ / -- whose root lvalue
                                  is one of those objects or goes through a `ProtobufCAllocator *`
  Pbc.Extract.Facts.asserts       every assert() with its enclosing function and condition text
  Pbc.Extract.Facts.nameReads     functions that read a descriptor's name / short_name / c_name /
                                  package_name member
"""
import json, subprocess, sys, os, re

REPO = os.environ.get('PBC_REPO', '/repo')
SRC = os.path.join(REPO, 'protobuf-c', 'protobuf-c.c')
HERE = os.path.dirname(os.path.abspath(__file__))


def lean_str(s):
    return '"' + s.replace('\\', '\\\\').replace('"', '\\"').replace('\n', ' ') + '"'


def main():
    out = sys.argv[1] if len(sys.argv) > 1 else os.path.join(HERE, '..', 'lean', 'Pbc', 'Extract', 'Facts.lean')
    cmd = ['clang-14', '-fsyntax-only', '-I' + os.path.join(HERE, 'shim'), '-I' + REPO, '-I' + os.path.join(REPO, 'protobuf-c'),
           '-Xclang', '-ast-dump=json', SRC]
    r = subprocess.run(cmd, stdout=subprocess.PIPE, stderr=subprocess.PIPE)
    if r.returncode != 0:
        sys.stderr.write(r.stderr.decode()[:2000])
        raise SystemExit('clang failed')
    ast = json.loads(r.stdout)
    src = open(SRC, 'rb').read()

    def text(n):
        rg = n.get('range', {})
        b, e = rg.get('begin', {}), rg.get('end', {})
        bs, es = b.get('spellingLoc', b), e.get('spellingLoc', e)
        if 'offset' in bs and 'offset' in es and bs.get('file', None) == es.get('file', None) and 0 <= es['offset'] - bs['offset'] < 400:
            # (offsets are into the file the tokens are spelled in; only protobuf-c.c is sliced)
            if 'file' not in bs or os.path.abspath(bs['file']) == os.path.abspath(SRC):
                return src[bs['offset']:es['offset'] + es.get('tokLen', 1)].decode('utf-8', 'replace')
        b = b.get('expansionLoc', b)
        e = e.get('expansionLoc', e)
        if 'offset' in b and 'offset' in e:
            return src[b['offset']:e['offset'] + e.get('tokLen', 1)].decode('utf-8', 'replace')
        return '?'

    globals_, stores, asserts, name_reads = [], [], [], set()
    global_names = set()
    cur_file = None
    fns = []
    for d in ast['inner']:
        loc = d.get('loc', {})
        if 'file' in loc:
            cur_file = loc['file']
        if 'expansionLoc' in loc and 'file' in loc['expansionLoc']:
            cur_file = loc['expansionLoc']['file']
        in_main = cur_file is not None and os.path.abspath(cur_file) == os.path.abspath(SRC)
        if d.get('kind') == 'VarDecl' and in_main and d.get('storageClass') != 'extern':
            q = d['type']['qualType']
            globals_.append((d['name'], q.startswith('const ') or ' const' in q.split('[')[0], 'file'))
            global_names.add(d['name'])
        if d.get('kind') == 'FunctionDecl' and in_main and any(c.get('kind') == 'CompoundStmt' for c in d.get('inner', [])):
            fns.append(d)

    def root(n):
        while n.get('kind') in ('ParenExpr', 'ImplicitCastExpr', 'CStyleCastExpr', 'ArraySubscriptExpr', 'MemberExpr') or \
                (n.get('kind') == 'UnaryOperator' and n.get('opcode') in ('*', '&')):
            n = n['inner'][0]
        return n

    def through_allocator_ptr(n):
        # lvalue of the form allocator->member / (*allocator).member
        while n.get('kind') in ('ParenExpr', 'ImplicitCastExpr', 'CStyleCastExpr'):
            n = n['inner'][0]
        if n.get('kind') == 'MemberExpr':
            b = n['inner'][0]
            t = b.get('type', {}).get('qualType', '')
            if 'ProtobufCAllocator' in t:
                return True
            return through_allocator_ptr(b)
        if n.get('kind') == 'UnaryOperator' and n.get('opcode') == '*':
            t = n['inner'][0].get('type', {}).get('qualType', '')
            return 'ProtobufCAllocator' in t
        return False

    def walk(n, fn):
        if not isinstance(n, dict):
            return
        k = n.get('kind')
        if k == 'DeclStmt':
            for v in n.get('inner', []):
                if v.get('kind') == 'VarDecl' and v.get('storageClass') == 'static':
                    q = v['type']['qualType']
                    globals_.append((fn + '::' + v['name'], q.startswith('const '), 'local-static'))
                    global_names.add(v['name'])
        lv = None
        if k == 'BinaryOperator' and n.get('opcode') == '=':
            lv = n['inner'][0]
        elif k == 'CompoundAssignOperator':
            lv = n['inner'][0]
        elif k == 'UnaryOperator' and n.get('opcode') in ('++', '--'):
            lv = n['inner'][0]
        if lv is not None:
            r_ = root(lv)
            if r_.get('kind') == 'DeclRefExpr' and r_['referencedDecl'].get('kind') == 'VarDecl' and r_['referencedDecl']['name'] in global_names \
                    and r_['referencedDecl']['name'] not in local_names.get(fn, set()):
                stores.append((fn, r_['referencedDecl']['name']))
            elif through_allocator_ptr(lv):
                stores.append((fn, '*ProtobufCAllocator'))
        if k == 'CallExpr':
            c = n['inner'][0]
            while c.get('kind') in ('ImplicitCastExpr', 'ParenExpr'):
                c = c['inner'][0]
            if c.get('kind') == 'DeclRefExpr' and c['referencedDecl']['name'] == 'pbcv_assert':
                arg = n['inner'][1]
                # the shim wraps the condition as (e) != 0: find e
                x = arg
                while x.get('kind') in ('ImplicitCastExpr', 'ParenExpr'):
                    x = x['inner'][0]
                if x.get('kind') == 'BinaryOperator' and x.get('opcode') == '!=':
                    x = x['inner'][0]
                    while x.get('kind') in ('ImplicitCastExpr', 'ParenExpr'):
                        x = x['inner'][0]
                asserts.append((fn, re.sub(r'\s+', ' ', text(x)).strip()))
        if k == 'MemberExpr' and n.get('name') in ('name', 'short_name', 'c_name', 'package_name'):
            bt = n['inner'][0].get('type', {}).get('qualType', '')
            if 'Descriptor' in bt or 'ProtobufCEnumValue' in bt:
                name_reads.add(fn)
        for c in n.get('inner', []) or []:
            walk(c, fn)

    # names of ordinary locals/params per function shadow globals of the same name
    local_names = {}

    def collect_locals(n, acc):
        if isinstance(n, dict):
            if n.get('kind') in ('VarDecl', 'ParmVarDecl') and n.get('storageClass') != 'static':
                acc.add(n.get('name'))
            for c in n.get('inner', []) or []:
                collect_locals(c, acc)
    for f in fns:
        s = set()
        collect_locals(f, s)
        local_names[f['name']] = s
    for f in fns:
        walk(f, f['name'])

    L = ['/- GENERATED by tools/extract_facts.py from %s -- do not edit. -/' % SRC, 'namespace Pbc.Extract.Facts', '',
         '/-- (object, is const, kind) for every object with static storage duration defined in protobuf-c.c -/',
         'def globals : List (String × Bool × String) := [' + ', '.join('(%s, %s, %s)' % (lean_str(a), 'true' if b else 'false', lean_str(c)) for a, b, c in globals_) + ']', '',
         '/-- (function, object) for every store whose root is such an object or a ProtobufCAllocator -/',
         'def globalStores : List (String × String) := [' + ', '.join('(%s, %s)' % (lean_str(a), lean_str(b)) for a, b in stores) + ']', '',
         '/-- (function, condition) for every assert() -/',
         'def asserts : List (String × String) := [' + ',\n  '.join('(%s, %s)' % (lean_str(a), lean_str(b)) for a, b in asserts) + ']', '',
         '/-- functions that read a name string of a descriptor -/',
         'def nameReads : List String := [' + ', '.join(lean_str(a) for a in sorted(name_reads)) + ']', '',
         'end Pbc.Extract.Facts', '']
    txt = '\n'.join(L)
    if not os.path.exists(out) or open(out).read() != txt:
        open(out, 'w').write(txt)
    print('extract_facts: %d globals, %d stores, %d asserts, %d name-reading functions' % (len(globals_), len(stores), len(asserts), len(name_reads)))


if __name__ == '__main__':
    main()
