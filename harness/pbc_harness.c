/*
 * pbc_harness.c -- correspondence harness (tie (b) of DESIGN.md).
 *
 * One translation unit that #includes /repo/protobuf-c/protobuf-c.c, so that every static
 * function is reachable with no change to the repository.  It reads a case file (schema
 * block + one operation per line), runs the REAL code, and prints one canonical line per
 * operation.  The Lean driver reads the same file and must print the same lines.
 *
 * Build (see bin/check):  gcc -O1 -g -fsanitize=address,undefined -fno-sanitize-recover=all
 *                         -DPBC_SRC='"/repo/protobuf-c/protobuf-c.c"' -I/repo -I/repo/protobuf-c
 */
#define _GNU_SOURCE
#include <stdio.h>
#include <stdlib.h>
#include <string.h>
#include <stdint.h>
#include <unistd.h>
#include <signal.h>
#include <sys/wait.h>
#include <stdarg.h>
#include <limits.h>

/* ---- interpose the system allocator *inside* protobuf-c.c only ------------------------- */
static long g_sys_malloc_calls, g_sys_free_calls;
#ifdef PBCV_MT
/* multi-threaded mode (C17): no instrumentation state of our own may be shared between threads */
static void *pbcv_sys_malloc(size_t n) { return malloc(n); }
static void pbcv_sys_free(void *p) { free(p); }
#else
static void *pbcv_sys_malloc(size_t n) { g_sys_malloc_calls++; return malloc(n); }
static void pbcv_sys_free(void *p) { g_sys_free_calls++; free(p); }
#endif

static int g_err_lines[64];
static int g_n_err;
#ifdef PBCV_MT
static void pbcv_err(int line) { (void) line; }
#else
static void pbcv_err(int line) { if (g_n_err < 64) g_err_lines[g_n_err++] = line; }
#endif
#define PROTOBUF_C_UNPACK_ERROR(...) pbcv_err(__LINE__)

#include <assert.h>
#include <protobuf-c.h>
/* inside protobuf-c.c only: malloc(n) / free(p) go to the counting shims; the two-argument
   call `allocator->free(data, p)` is left alone (a macro is not re-expanded inside itself). */
#define PBCV_PICK(_1, _2, N, ...) N
#define PBCV_FREE1(p) pbcv_sys_free(p)
#define PBCV_FREE2(a, b) free(a, b)
#define malloc(n) pbcv_sys_malloc(n)
#define free(...) PBCV_PICK(__VA_ARGS__, PBCV_FREE2, PBCV_FREE1, 0)(__VA_ARGS__)
#include PBC_SRC
#undef malloc
#undef free

/* ---------------------------------------------------------------------------------------- */
#define MAXTOK 400000
static char *g_line;
static size_t g_linecap;
static char **g_tok;
static int g_ntok, g_pos;

static void die(const char *m) { fprintf(stderr, "harness: %s\n", m); fflush(stdout); exit(3); }
static const char *tok(void) { if (g_pos >= g_ntok) die("out of tokens"); return g_tok[g_pos++]; }
static long long tok_ll(void) { return strtoll(tok(), NULL, 10); }
static unsigned long long tok_hex(void) { return strtoull(tok(), NULL, 16); }

static int hexval(int c) { return c <= '9' ? c - '0' : (c | 32) - 'a' + 10; }
static uint8_t *hex2bytes(const char *h, size_t *n)
{
	size_t len = strlen(h) / 2, i;
	uint8_t *b = malloc(len ? len : 1);
	for (i = 0; i < len; i++) b[i] = hexval(h[2 * i]) * 16 + hexval(h[2 * i + 1]);
	*n = len;
	return b;
}
static void put_hex(const uint8_t *b, size_t n) { size_t i; for (i = 0; i < n; i++) printf("%02x", b[i]); }

/* ---- tracked scratch memory for messages built from literals ---------------------------- */
static void **g_scratch; static size_t g_nscratch, g_capscratch;
static void *salloc(size_t n)
{
	void *p = calloc(1, n ? n : 1);
	if (g_nscratch == g_capscratch) { g_capscratch = g_capscratch ? 2 * g_capscratch : 256; g_scratch = realloc(g_scratch, g_capscratch * sizeof(void *)); }
	g_scratch[g_nscratch++] = p;
	return p;
}
static void sfree_all(void) { size_t i; for (i = 0; i < g_nscratch; i++) free(g_scratch[i]); g_nscratch = 0; }

#ifdef PBCV_GEN
#include "gen_table.inc"      /* written by tools/genpipe.py: generated header, descriptor table, INIT objects, services */
#endif

/* ---- dynamic schema ----------------------------------------------------------------------- */
typedef struct {
	int group;          /* oneof group or -1 */
	int sub;            /* sub-message type index or -1 */
	int has_init;       /* explicit init value differing from default (enum first value) */
	uint64_t init_bits;
	uint8_t *dflt_data; size_t dflt_len;   /* string/bytes default contents */
	uint8_t *decl_data;                     /* private copy of the DECLARED default: the shared default object must keep this content */
	ProtobufCBinaryData dflt_bd;
	uint64_t dflt_scalar;
	char dkind;         /* '-', 'V' scalar, 'S' string, 'B' bytes, 'E' empty string */
} FieldX;
typedef struct {
	ProtobufCMessageDescriptor dyn;            /* storage for a descriptor built at run time */
	const ProtobufCMessageDescriptor *dp;      /* the descriptor in use (== &dyn, or a generated one) */
	ProtobufCFieldDescriptor *f;
	FieldX *x;
	unsigned *by_name;
	ProtobufCIntRange *ranges;
	int ngroups;
	unsigned *group_case_off, *group_union_off;
	int initmode;
	int gen;
} MsgX;
static MsgX *g_msgs; static int g_nmsgs;

static void dyn_init(MsgX *mx, ProtobufCMessage *m);
#define NTRAMP 64
#define T(k) static void tramp_##k(ProtobufCMessage *m) { dyn_init(&g_msgs[k], m); }
T(0) T(1) T(2) T(3) T(4) T(5) T(6) T(7) T(8) T(9) T(10) T(11) T(12) T(13) T(14) T(15)
T(16) T(17) T(18) T(19) T(20) T(21) T(22) T(23) T(24) T(25) T(26) T(27) T(28) T(29) T(30) T(31)
T(32) T(33) T(34) T(35) T(36) T(37) T(38) T(39) T(40) T(41) T(42) T(43) T(44) T(45) T(46) T(47)
T(48) T(49) T(50) T(51) T(52) T(53) T(54) T(55) T(56) T(57) T(58) T(59) T(60) T(61) T(62) T(63)
#undef T
#define T(k) tramp_##k,
static ProtobufCMessageInit g_tramp[NTRAMP] = {
T(0) T(1) T(2) T(3) T(4) T(5) T(6) T(7) T(8) T(9) T(10) T(11) T(12) T(13) T(14) T(15)
T(16) T(17) T(18) T(19) T(20) T(21) T(22) T(23) T(24) T(25) T(26) T(27) T(28) T(29) T(30) T(31)
T(32) T(33) T(34) T(35) T(36) T(37) T(38) T(39) T(40) T(41) T(42) T(43) T(44) T(45) T(46) T(47)
T(48) T(49) T(50) T(51) T(52) T(53) T(54) T(55) T(56) T(57) T(58) T(59) T(60) T(61) T(62) T(63)
};

static int is32(int t)
{
	switch (t) {
	case PROTOBUF_C_TYPE_INT32: case PROTOBUF_C_TYPE_SINT32: case PROTOBUF_C_TYPE_SFIXED32:
	case PROTOBUF_C_TYPE_UINT32: case PROTOBUF_C_TYPE_FIXED32: case PROTOBUF_C_TYPE_FLOAT:
	case PROTOBUF_C_TYPE_ENUM: case PROTOBUF_C_TYPE_BOOL: return 1;
	}
	return 0;
}
static int is64(int t)
{
	switch (t) {
	case PROTOBUF_C_TYPE_INT64: case PROTOBUF_C_TYPE_SINT64: case PROTOBUF_C_TYPE_SFIXED64:
	case PROTOBUF_C_TYPE_UINT64: case PROTOBUF_C_TYPE_FIXED64: case PROTOBUF_C_TYPE_DOUBLE: return 1;
	}
	return 0;
}

static int cmp_name_idx(const void *a, const void *b, void *ctx)
{
	MsgX *mx = ctx;
	return strcmp(mx->f[*(const unsigned *) a].name, mx->f[*(const unsigned *) b].name);
}

/* schema block:
 *   schema <nmsgs>
 *   msg <idx> <name> <nfields> <initmode> <ngroups>
 *   f <name> <id> <label> <type> <flags> <group> <sub> <dflt> <init>
 * layout (generator conventions, everything 8-aligned): header; non-oneof fields in order,
 * quantifier member (has_: int, n_: size_t) directly before the value; then per oneof group
 * the case (uint32) and a 16-byte union.
 */
static void free_schema(void)
{
	int i; unsigned j;
	for (i = 0; i < g_nmsgs; i++) {
		MsgX *mx = &g_msgs[i];
		if (!mx->gen) {
			for (j = 0; j < mx->dp->n_fields; j++) { free((char *) mx->f[j].name); free(mx->x[j].dflt_data); }
			free((char *) mx->dp->name); free(mx->f);
		}
		if (mx->x) for (j = 0; j < mx->dp->n_fields; j++) free(mx->x[j].decl_data);
		free(mx->x); free(mx->by_name); free(mx->ranges);
		free(mx->group_case_off); free(mx->group_union_off);
	}
	free(g_msgs); g_msgs = NULL; g_nmsgs = 0;
}

static char *read_line(FILE *in);
static void tokenize(char *s);

static void read_schema(FILE *in, int nmsgs)
{
	int i; unsigned j;
	free_schema();
	g_nmsgs = nmsgs;
	g_msgs = calloc(nmsgs ? nmsgs : 1, sizeof(MsgX));
	for (i = 0; i < nmsgs; i++) {
		MsgX *mx = &g_msgs[i];
		unsigned off = sizeof(ProtobufCMessage);
		int g;
		if (!read_line(in)) die("eof in schema");
		printf("\n");
		tokenize(g_line);
		if (strcmp(tok(), "msg")) die("expected msg");
		(void) tok_ll();
		mx->dp = &mx->dyn;
		mx->dyn.magic = PROTOBUF_C__MESSAGE_DESCRIPTOR_MAGIC;
		mx->dyn.name = strdup(tok());
		mx->dyn.short_name = mx->dyn.name; mx->dyn.c_name = mx->dyn.name; mx->dyn.package_name = "";
		mx->dyn.n_fields = tok_ll();
		mx->initmode = tok_ll();
		mx->ngroups = tok_ll();
		mx->f = calloc(mx->dyn.n_fields + 1, sizeof(ProtobufCFieldDescriptor));
		mx->x = calloc(mx->dyn.n_fields + 1, sizeof(FieldX));
		mx->group_case_off = calloc(mx->ngroups + 1, sizeof(unsigned));
		mx->group_union_off = calloc(mx->ngroups + 1, sizeof(unsigned));
		for (j = 0; j < mx->dyn.n_fields; j++) {
			ProtobufCFieldDescriptor *f = &mx->f[j];
			FieldX *x = &mx->x[j];
			const char *d;
			if (!read_line(in)) die("eof in schema");
			printf("\n");
			tokenize(g_line);
			if (strcmp(tok(), "f")) die("expected f");
			f->name = strdup(tok());
			f->id = tok_ll();
			f->label = tok_ll();
			f->type = tok_ll();
			f->flags = tok_ll();
			x->group = tok_ll();
			x->sub = tok_ll();
			d = tok();
			x->dkind = '-';
			x->decl_data = NULL;
			if (d[0] == 'E') { x->dkind = 'E'; f->default_value = &protobuf_c_empty_string; }
			else if (d[0] == 'S') { x->dkind = 'S'; x->dflt_data = hex2bytes(d + 1, &x->dflt_len); x->dflt_data = realloc(x->dflt_data, x->dflt_len + 1); x->dflt_data[x->dflt_len] = 0; f->default_value = x->dflt_data; x->decl_data = malloc(x->dflt_len + 1); memcpy(x->decl_data, x->dflt_data, x->dflt_len + 1); }
			else if (d[0] == 'B') { x->dkind = 'B'; x->dflt_data = hex2bytes(d + 1, &x->dflt_len); x->dflt_bd.len = x->dflt_len; x->dflt_bd.data = x->dflt_data; f->default_value = &x->dflt_bd; x->decl_data = malloc(x->dflt_len + 1); memcpy(x->decl_data, x->dflt_data, x->dflt_len); }
			else if (d[0] == 'V') { x->dkind = 'V'; x->dflt_scalar = strtoull(d + 1, NULL, 16); f->default_value = &x->dflt_scalar; }
			d = tok();
			if (d[0] == 'V') { x->has_init = 1; x->init_bits = strtoull(d + 1, NULL, 16); }
		}
#ifdef PBCV_GEN
		/* generated code: descriptor, struct layout and init function come from protoc-gen-c's output */
		if (i >= (int) (sizeof pbcv_gen_msgs / sizeof pbcv_gen_msgs[0])) die("schema has more messages than the generated file");
		{
			const ProtobufCMessageDescriptor *gd = pbcv_gen_msgs[i];
			if (gd->n_fields != mx->dyn.n_fields) die("generated descriptor has a different number of fields");
			for (j = 0; j < gd->n_fields; j++) {
				if (gd->fields[j].id != mx->f[j].id) die("generated descriptor: field numbers differ");
				free((char *) mx->f[j].name);
				if (mx->x[j].dkind == 'B') { free(mx->x[j].dflt_data); mx->x[j].dflt_data = ((const ProtobufCBinaryData *) gd->fields[j].default_value)->data; }
				else if (mx->x[j].dkind == 'S') { free(mx->x[j].dflt_data); mx->x[j].dflt_data = NULL; }
			}
			free(mx->f);
			free((char *) mx->dyn.name);
			mx->f = (ProtobufCFieldDescriptor *) gd->fields;
			mx->dp = gd;
			mx->gen = 1;
			continue;
		}
#endif
		/* layout */
		for (j = 0; j < mx->dyn.n_fields; j++) {
			ProtobufCFieldDescriptor *f = &mx->f[j];
			FieldX *x = &mx->x[j];
			if (x->group >= 0) continue;
			if (f->label == PROTOBUF_C_LABEL_REPEATED) { f->quantifier_offset = off; off += 8; f->offset = off; off += 8; }
			else {
				int uses_has = f->label == PROTOBUF_C_LABEL_OPTIONAL && f->type != PROTOBUF_C_TYPE_STRING && f->type != PROTOBUF_C_TYPE_MESSAGE;
				if (uses_has) { f->quantifier_offset = off; off += 8; } else f->quantifier_offset = 0;
				f->offset = off; off += (f->type == PROTOBUF_C_TYPE_BYTES) ? 16 : 8;
			}
		}
		for (g = 0; g < mx->ngroups; g++) { mx->group_case_off[g] = off; off += 8; mx->group_union_off[g] = off; off += 16; }
		for (j = 0; j < mx->dyn.n_fields; j++) {
			ProtobufCFieldDescriptor *f = &mx->f[j];
			FieldX *x = &mx->x[j];
			if (x->group < 0) continue;
			f->quantifier_offset = mx->group_case_off[x->group];
			f->offset = mx->group_union_off[x->group];
		}
		mx->dyn.sizeof_message = off;
		mx->dyn.fields = mx->dyn.n_fields ? mx->f : NULL;   /* the generator emits NULL for an empty message */
		/* name index */
		mx->by_name = calloc(mx->dyn.n_fields + 1, sizeof(unsigned));
		for (j = 0; j < mx->dyn.n_fields; j++) mx->by_name[j] = j;
		qsort_r(mx->by_name, mx->dyn.n_fields, sizeof(unsigned), cmp_name_idx, mx);
		mx->dyn.fields_sorted_by_name = mx->by_name;
		/* ranges (as protoc-gen-c/c_helpers.cc WriteIntRanges builds them) */
		mx->ranges = calloc(mx->dyn.n_fields + 2, sizeof(ProtobufCIntRange));
		{
			unsigned nr = 0;
			if (mx->dyn.n_fields > 0) {
				int last = mx->f[0].id, cnt = 1;
				mx->ranges[nr].start_value = last; mx->ranges[nr].orig_index = 0; nr++;
				for (j = 1; j < mx->dyn.n_fields; j++) {
					if ((int) mx->f[j].id != last + cnt) {
						last = mx->f[j].id; cnt = 1;
						mx->ranges[nr].start_value = last; mx->ranges[nr].orig_index = j; nr++;
					} else cnt++;
				}
			}
			mx->ranges[nr].start_value = 0; mx->ranges[nr].orig_index = mx->dyn.n_fields;
			mx->dyn.n_field_ranges = nr; mx->dyn.field_ranges = mx->ranges;
		}
		mx->dyn.message_init = (mx->initmode == 0) ? (i < NTRAMP ? g_tramp[i] : NULL) : NULL;
		if (mx->initmode == 0 && i >= NTRAMP) die("too many messages for trampolines");
	}
	for (i = 0; i < nmsgs; i++) {
		MsgX *mx = &g_msgs[i];
		if (mx->gen) continue;
		for (j = 0; j < mx->dyn.n_fields; j++)
			if (mx->x[j].sub >= 0) mx->f[j].descriptor = g_msgs[mx->x[j].sub].dp;
	}
}

static MsgX *mx_of(const ProtobufCMessageDescriptor *d)
{
	int i;
	for (i = 0; i < g_nmsgs; i++) if (g_msgs[i].dp == d) return &g_msgs[i];
	die("unknown descriptor");
	return NULL;
}

/* what the generated <msg>__init does: copy of the static INIT value */
static void dyn_init(MsgX *mx, ProtobufCMessage *m)
{
	unsigned j;
	memset(m, 0, mx->dp->sizeof_message);
	m->descriptor = mx->dp;
	for (j = 0; j < mx->dp->n_fields; j++) {
		ProtobufCFieldDescriptor *f = &mx->f[j];
		FieldX *x = &mx->x[j];
		void *p = (char *) m + f->offset;
		if (x->group >= 0 || f->label == PROTOBUF_C_LABEL_REPEATED) continue;   /* case = 0, union = {0}; 0,NULL */
		if (x->has_init) { if (is32(f->type)) *(uint32_t *) p = x->init_bits; else *(uint64_t *) p = x->init_bits; continue; }
		switch (x->dkind) {
		case 'V': if (is32(f->type)) *(uint32_t *) p = x->dflt_scalar; else *(uint64_t *) p = x->dflt_scalar; break;
		case 'S': *(char **) p = (char *) x->dflt_data; break;
		case 'E': *(const char **) p = protobuf_c_empty_string; break;
		case 'B': *(ProtobufCBinaryData *) p = x->dflt_bd; break;
		default: break;
		}
	}
}

/* ---- message literals ------------------------------------------------------------------- */
static ProtobufCMessage *parse_msg(void);

static void parse_val(MsgX *mx, unsigned j, void *p)
{
	ProtobufCFieldDescriptor *f = &mx->f[j];
	FieldX *x = &mx->x[j];
	if (is32(f->type)) { *(uint32_t *) p = tok_hex(); return; }
	if (is64(f->type)) { *(uint64_t *) p = tok_hex(); return; }
	if (f->type == PROTOBUF_C_TYPE_STRING) {
		const char *t = tok();
		if (t[0] == 'N') *(char **) p = NULL;
		else if (t[0] == 'D') *(const void **) p = f->default_value;
		else if (t[0] == 'E') *(const char **) p = protobuf_c_empty_string;
		else { size_t n; uint8_t *b = hex2bytes(t + 1, &n); char *s = salloc(n + 1); memcpy(s, b, n); s[n] = 0; free(b); *(char **) p = s; }
		return;
	}
	if (f->type == PROTOBUF_C_TYPE_BYTES) {
		ProtobufCBinaryData *bd = p;
		const char *t;
		bd->len = tok_ll();
		t = tok();
		if (t[0] == 'N') bd->data = NULL;
		else if (t[0] == 'D') bd->data = x->dflt_data;
		else { size_t n; uint8_t *b = hex2bytes(t + 1, &n); uint8_t *s = salloc(n); memcpy(s, b, n); free(b); bd->data = s; }
		return;
	}
	/* message */
	{
		const char *t = g_tok[g_pos];
		if (t[0] == 'N') { g_pos++; *(ProtobufCMessage **) p = NULL; }
		else *(ProtobufCMessage **) p = parse_msg();
	}
}

static size_t elt_size(int t) { return t == PROTOBUF_C_TYPE_BYTES ? 16 : (is32(t) ? 4 : 8); }

static ProtobufCMessage *parse_msg(void)
{
	MsgX *mx;
	ProtobufCMessage *m;
	unsigned j, nu, k;
	if (strcmp(tok(), "M")) die("expected M");
	mx = &g_msgs[tok_ll()];
	m = salloc(mx->dp->sizeof_message);
	m->descriptor = mx->dp;
	for (j = 0; j < mx->dp->n_fields; j++) {
		ProtobufCFieldDescriptor *f = &mx->f[j];
		FieldX *x = &mx->x[j];
		void *p = (char *) m + f->offset, *q = (char *) m + f->quantifier_offset;
		if (x->group >= 0) {
			uint32_t c = tok_ll();
			*(uint32_t *) q = c;
			if (c == f->id) parse_val(mx, j, p);
			else if (strcmp(tok(), "Z")) die("expected Z");
		} else if (f->label == PROTOBUF_C_LABEL_REPEATED) {
			size_t n = tok_ll(), i;
			const char *t = tok();
			*(size_t *) q = n;
			if (t[0] == 'N') *(void **) p = NULL;
			else {
				size_t es = elt_size(f->type);
				char *arr = salloc(n * es);
				*(void **) p = arr;
				for (i = 0; i < n; i++) parse_val(mx, j, arr + i * es);
			}
		} else {
			if (f->quantifier_offset != 0) *(protobuf_c_boolean *) q = tok_ll();
			parse_val(mx, j, p);
		}
	}
	if (strcmp(tok(), "U")) die("expected U");
	nu = tok_ll();
	m->n_unknown_fields = nu;
	m->unknown_fields = nu ? salloc(nu * sizeof(ProtobufCMessageUnknownField)) : NULL;
	for (k = 0; k < nu; k++) {
		size_t n; uint8_t *b;
		m->unknown_fields[k].tag = tok_ll();
		m->unknown_fields[k].wire_type = tok_ll();
		b = hex2bytes(tok() + 1, &n);
		m->unknown_fields[k].len = n;
		m->unknown_fields[k].data = salloc(n);
		memcpy(m->unknown_fields[k].data, b, n);
		free(b);
	}
	return m;
}

static void dump_msg(const ProtobufCMessage *m);

static void dump_val(MsgX *mx, unsigned j, const void *p)
{
	ProtobufCFieldDescriptor *f = &mx->f[j];
	FieldX *x = &mx->x[j];
	if (is32(f->type)) { printf(" %08x", *(const uint32_t *) p); return; }
	if (is64(f->type)) { printf(" %016llx", (unsigned long long) *(const uint64_t *) p); return; }
	if (f->type == PROTOBUF_C_TYPE_STRING) {
		const char *s = *(char *const *) p;
		if (!s) printf(" N");
		else if (s == f->default_value) {
			/* the default object is shared by every message: it must still read as declared */
			if (x->decl_data && (strlen(s) != x->dflt_len || memcmp(s, x->decl_data, x->dflt_len))) { printf(" D!changed:"); put_hex((const uint8_t *) s, strlen(s)); }
			else printf(" D");
		}
		else if (s == protobuf_c_empty_string) printf(" E");
		else { printf(" S"); put_hex((const uint8_t *) s, strlen(s)); }
		return;
	}
	if (f->type == PROTOBUF_C_TYPE_BYTES) {
		const ProtobufCBinaryData *bd = p;
		printf(" %zu", bd->len);
		if (!bd->data) printf(" N");
		else if (x->dkind == 'B' && bd->data == x->dflt_data) {
			if (x->decl_data && memcmp(bd->data, x->decl_data, x->dflt_len)) { printf(" D!changed:"); put_hex(bd->data, x->dflt_len); }
			else printf(" D");
		}
		else { printf(" B"); put_hex(bd->data, bd->len); }
		return;
	}
	{
		const ProtobufCMessage *s = *(ProtobufCMessage *const *) p;
		if (!s) printf(" N"); else { printf(" "); dump_msg(s); }
	}
}

static void dump_msg(const ProtobufCMessage *m)
{
	MsgX *mx = mx_of(m->descriptor);
	unsigned j, k;
	printf("M %d", (int) (mx - g_msgs));
	for (j = 0; j < mx->dp->n_fields; j++) {
		ProtobufCFieldDescriptor *f = &mx->f[j];
		FieldX *x = &mx->x[j];
		const void *p = (const char *) m + f->offset, *q = (const char *) m + f->quantifier_offset;
		if (x->group >= 0) {
			uint32_t c = *(const uint32_t *) q;
			printf(" %u", c);
			if (c == f->id) dump_val(mx, j, p); else printf(" Z");
		} else if (f->label == PROTOBUF_C_LABEL_REPEATED) {
			size_t n = *(const size_t *) q, i;
			const char *arr = *(char *const *) p;
			printf(" %zu", n);
			if (!arr) printf(" N");
			else { size_t es = elt_size(f->type); printf(" A"); for (i = 0; i < n; i++) dump_val(mx, j, arr + i * es); }
		} else {
			if (f->quantifier_offset != 0) printf(" %d", *(const protobuf_c_boolean *) q);
			dump_val(mx, j, p);
		}
	}
	printf(" U %u", m->n_unknown_fields);
	for (k = 0; k < m->n_unknown_fields; k++) {
		const ProtobufCMessageUnknownField *u = &m->unknown_fields[k];
		printf(" %u %d X", u->tag, (int) u->wire_type);
		put_hex(u->data, u->len);
	}
}

/* ---- recording / refusing allocator -------------------------------------------------------- */
typedef struct { void *p; size_t size; int id; } Block;
static Block *g_blocks; static size_t g_nblocks, g_capblocks;
static int g_next_id, g_alloc_count, g_double_free, g_foreign_free, g_refused;
static const char *g_mask; static size_t g_masklen; static int g_mask_tail;
static int g_trace;
static char *g_tracebuf; static size_t g_tracelen, g_tracecap;

static void trace_add(const char *fmt, ...)
{
	char tmp[64]; int n;
	va_list ap; va_start(ap, fmt); n = vsnprintf(tmp, sizeof tmp, fmt, ap); va_end(ap);
	if (g_tracelen + n + 1 > g_tracecap) { g_tracecap = (g_tracecap + n + 1) * 2; g_tracebuf = realloc(g_tracebuf, g_tracecap); }
	memcpy(g_tracebuf + g_tracelen, tmp, n + 1); g_tracelen += n;
}

static int g_alloc_ctx_token;
static void *rec_alloc(void *ctx, size_t size)
{
	int k = g_alloc_count++;
	int refuse = 0;
	void *p;
	if (ctx != &g_alloc_ctx_token) g_foreign_free++;       /* not called with the allocator_data the caller configured */
	if (g_mask) { if ((size_t) k < g_masklen) refuse = g_mask[k] == '1'; else refuse = g_mask_tail; }
	if (refuse) { g_refused++; if (g_trace) trace_add(" r%zu", size); return NULL; }
	p = malloc(size ? size : 1);
	memset(p, 0xFF, size ? size : 1);      /* a caller's allocator owes nobody zeroed memory */
	if (g_nblocks == g_capblocks) { g_capblocks = g_capblocks ? 2 * g_capblocks : 256; g_blocks = realloc(g_blocks, g_capblocks * sizeof(Block)); }
	g_blocks[g_nblocks].p = p; g_blocks[g_nblocks].size = size; g_blocks[g_nblocks].id = g_next_id++;
	if (g_trace) trace_add(" a%d:%zu", g_blocks[g_nblocks].id, size);
	g_nblocks++;
	return p;
}
static void rec_free(void *ctx, void *p)
{
	size_t i;
	if (ctx != &g_alloc_ctx_token) { g_foreign_free++; if (g_trace) trace_add(" f!ctx"); }
	for (i = 0; i < g_nblocks; i++) if (g_blocks[i].p == p) {
		if (g_trace) trace_add(" f%d", g_blocks[i].id);
		free(p);
		g_blocks[i] = g_blocks[--g_nblocks];
		return;
	}
	g_foreign_free++;
	if (g_trace) trace_add(" f?");
}
static ProtobufCAllocator g_rec = { rec_alloc, rec_free, &g_alloc_ctx_token };
static void rec_reset(const char *mask, int tail)
{
	size_t i;
	for (i = 0; i < g_nblocks; i++) free(g_blocks[i].p);
	g_nblocks = 0; g_next_id = 0; g_alloc_count = 0; g_double_free = 0; g_foreign_free = 0; g_refused = 0;
	g_mask = mask; g_masklen = mask ? strlen(mask) : 0; g_mask_tail = tail;
	g_tracelen = 0; if (g_tracebuf) g_tracebuf[0] = 0;
	g_sys_malloc_calls = g_sys_free_calls = 0;
}

/* ---- recording ProtobufCBuffer --------------------------------------------------------------- */
typedef struct { ProtobufCBuffer base; uint8_t *data; size_t len, cap; size_t *chunks; size_t nchunks, capchunks; } RecBuf;
static void recbuf_append(ProtobufCBuffer *b, size_t len, const uint8_t *data)
{
	RecBuf *r = (RecBuf *) b;
	if (r->len + len > r->cap) { r->cap = (r->len + len) * 2 + 16; r->data = realloc(r->data, r->cap); }
	if (len) memcpy(r->data + r->len, data, len);
	r->len += len;
	if (r->nchunks == r->capchunks) { r->capchunks = r->capchunks ? 2 * r->capchunks : 64; r->chunks = realloc(r->chunks, r->capchunks * sizeof(size_t)); }
	r->chunks[r->nchunks++] = len;
}

/* ---- operations ----------------------------------------------------------------------------- */
static void op_pack(void)
{
	ProtobufCMessage *m = parse_msg();
	size_t sz = protobuf_c_message_get_packed_size(m);
	uint8_t *exact = malloc(sz ? sz : 1);          /* ASan redzones catch any overrun */
	uint8_t *fenced = malloc(sz + 64);
	size_t w1, w2, w3, i;
	int guard = 1;
	RecBuf rb; memset(&rb, 0, sizeof rb); rb.base.append = recbuf_append;
	w1 = protobuf_c_message_pack(m, exact);
	memset(fenced, 0xA5, sz + 64);
	w2 = protobuf_c_message_pack(m, fenced + 32);
	for (i = 0; i < 32; i++) if (fenced[i] != 0xA5 || fenced[32 + sz + i] != 0xA5) guard = 0;
	w3 = protobuf_c_message_pack_to_buffer(m, &rb.base);
	printf("size=%zu packret=%zu bufret=%zu guard=%d same=%d pack=", sz, w1, w3, guard,
	       (w1 == w2 && w1 <= sz && memcmp(exact, fenced + 32, w1 <= sz ? w1 : sz) == 0));
	put_hex(exact, w1 <= sz ? w1 : sz);
	printf(" buf="); put_hex(rb.data, rb.len);
	printf(" chunks=");
	for (i = 0; i < rb.nchunks; i++) printf("%s%zu", i ? "," : "", rb.chunks[i]);
	printf("\n");
	free(exact); free(fenced); free(rb.data); free(rb.chunks);
}

static uint8_t *exact_copy(const uint8_t *b, size_t n)
{
	uint8_t *e = malloc(n ? n : 1);   /* exact-size block: ASan flags any over-read */
	if (n) memcpy(e, b, n);
	return e;
}

/* unpack <ty> X<hex> [mask [tail]] */
static void op_unpack(int with_mask)
{
	MsgX *mx = &g_msgs[tok_ll()];
	size_t n; uint8_t *raw = hex2bytes(tok() + 1, &n);
	uint8_t *in = exact_copy(raw, n);
	const char *mask = NULL; int tail = 0;
	ProtobufCMessage *m;
	int saved_trace = g_trace;
	if (with_mask) { mask = tok(); tail = tok_ll(); if (mask[0] == '-') mask = ""; g_trace = 1; }
	rec_reset(mask, tail);
	g_n_err = 0;
	m = protobuf_c_message_unpack(mx->dp, &g_rec, n, in);
	if (!m) printf("fail");
	else { printf("ok "); dump_msg(m); }
	if (m) protobuf_c_message_free_unpacked(m, &g_rec);
	printf(" live=%zu foreign=%d sysmalloc=%ld", g_nblocks, g_foreign_free, g_sys_malloc_calls + g_sys_free_calls);
	if (with_mask) printf(" refused=%d", g_refused);
	if (g_trace) printf(" trace=%s", g_tracebuf ? g_tracebuf : "");
	printf("\n");
	g_trace = saved_trace;
	free(raw); free(in);
}

/* unpacksys <ty> X<hex>: no allocator supplied -> the system allocator, and only it, is used */
static void op_unpacksys(void)
{
	MsgX *mx = &g_msgs[tok_ll()];
	size_t n; uint8_t *raw = hex2bytes(tok() + 1, &n);
	uint8_t *in = exact_copy(raw, n);
	ProtobufCMessage *m;
	long a, f;
	rec_reset(NULL, 0);
	m = protobuf_c_message_unpack(mx->dp, NULL, n, in);
	a = g_sys_malloc_calls;
	if (m) protobuf_c_message_free_unpacked(m, NULL);
	f = g_sys_free_calls;
	printf("%s sysmalloc=%ld sysfree=%ld custom_calls=%d\n", m ? "ok" : "fail", a, f, g_alloc_count);
	free(raw); free(in);
}

/* rt <msg>: the C01/C06 direct oracle data: pack, unpack, dump, re-pack */
static void op_rt(void)
{
	ProtobufCMessage *m = parse_msg(), *u;
	size_t sz = protobuf_c_message_get_packed_size(m);
	uint8_t *b = malloc(sz ? sz : 1);
	size_t w = protobuf_c_message_pack(m, b);
	uint8_t *in = exact_copy(b, w);
	rec_reset(NULL, 0);
	u = protobuf_c_message_unpack(m->descriptor, &g_rec, w, in);
	printf("pack="); put_hex(b, w);
	if (!u) printf(" unpack=fail\n");
	else {
		size_t sz2 = protobuf_c_message_get_packed_size(u);
		uint8_t *b2 = malloc(sz2 ? sz2 : 1);
		size_t w2 = protobuf_c_message_pack(u, b2);
		printf(" unpack=ok "); dump_msg(u);
		printf(" check=%d repack_same=%d", protobuf_c_message_check(u), (w2 == w && memcmp(b, b2, w) == 0));
		protobuf_c_message_free_unpacked(u, &g_rec);
		printf(" live=%zu\n", g_nblocks);
		free(b2);
	}
	free(b); free(in);
}

/* acc <ty> X<hex>: the C06 oracle on arbitrary bytes: unpack; if accepted: check, 3 serialisers, re-unpack, re-pack */
static void op_acc(void)
{
	MsgX *mx = &g_msgs[tok_ll()];
	size_t n; uint8_t *raw = hex2bytes(tok() + 1, &n);
	uint8_t *in = exact_copy(raw, n);
	ProtobufCMessage *m;
	rec_reset(NULL, 0);
	m = protobuf_c_message_unpack(mx->dp, &g_rec, n, in);
	if (!m) { printf("fail live=%zu\n", g_nblocks); free(raw); free(in); return; }
	{
		int chk = protobuf_c_message_check(m);
		size_t sz = protobuf_c_message_get_packed_size(m);
		uint8_t *b = malloc(sz ? sz : 1);
		size_t w = protobuf_c_message_pack(m, b), w3;
		RecBuf rb; ProtobufCMessage *m2; uint8_t *in2;
		memset(&rb, 0, sizeof rb); rb.base.append = recbuf_append;
		w3 = protobuf_c_message_pack_to_buffer(m, &rb.base);
		printf("ok check=%d size=%zu same3=%d pack=", chk, sz, (w == sz && w3 == sz && rb.len == sz && (sz == 0 || memcmp(rb.data, b, sz) == 0)));
		put_hex(b, w);
		in2 = exact_copy(b, w);
		m2 = protobuf_c_message_unpack(mx->dp, &g_rec, w, in2);
		if (!m2) printf(" re=fail");
		else {
			size_t sz2 = protobuf_c_message_get_packed_size(m2);
			uint8_t *b2 = malloc(sz2 ? sz2 : 1);
			size_t w2 = protobuf_c_message_pack(m2, b2);
			printf(" re=ok stable=%d", (w2 == w && memcmp(b, b2, w) == 0));
			free(b2);
			protobuf_c_message_free_unpacked(m2, &g_rec);
		}
		printf(" msg="); dump_msg(m);
		protobuf_c_message_free_unpacked(m, &g_rec);
		printf(" live=%zu\n", g_nblocks);
		free(b); free(rb.data); free(rb.chunks); free(in2);
	}
	free(raw); free(in);
}

static void op_check(void)
{
	ProtobufCMessage *m = parse_msg();
	printf("check=%d\n", protobuf_c_message_check(m));
}

static void op_init(void)
{
	MsgX *mx = &g_msgs[tok_ll()];
	ProtobufCMessage *m = salloc(mx->dp->sizeof_message);
	if (mx->dp->message_init) protobuf_c_message_init(mx->dp, m); else message_init_generic(mx->dp, m);
	printf("init "); dump_msg(m); printf("\n");
}

/* append <cap> <custom-alloc:0|1> <mask|-> <len>...   (data bytes are a running counter) */
static void op_append(void)
{
	size_t cap = tok_ll();
	int custom = tok_ll();
	const char *mask = tok();
	uint8_t *scratch = malloc(cap ? cap : 1);
	ProtobufCBufferSimple sb = PROTOBUF_C_BUFFER_SIMPLE_INIT(scratch);
	unsigned ctr = 0;
	int bad = 0;
	sb.alloced = cap;
	rec_reset(mask[0] == '-' ? NULL : mask, 0);
	if (custom) sb.allocator = &g_rec;
	g_trace++;
	while (g_pos < g_ntok) {
		size_t len = tok_ll(), i;
		uint8_t *d = malloc(len ? len : 1);
		for (i = 0; i < len; i++) d[i] = (uint8_t) (ctr++ * 7 + 1);
		sb.base.append(&sb.base, len, d);
		free(d);
		printf("[len=%zu alloced=%zu mf=%d] ", sb.len, sb.alloced, sb.must_free_data);
	}
	g_trace--;
	printf("data="); put_hex(sb.data, sb.len);
	if (!sb.must_free_data && sb.data != scratch) bad = 1;
	printf(" scratch_kept=%d", !bad);
	if (custom) printf(" trace=%s", g_tracebuf ? g_tracebuf : "");
	PROTOBUF_C_BUFFER_SIMPLE_CLEAR(&sb);
	if (custom) printf(" live=%zu foreign=%d", g_nblocks, g_foreign_free);
	printf("\n");
	free(scratch);
}

/* lookup: fnum <ty> <n> | fname <ty> <name>   -> index or -1 */
static void op_lookup(void)
{
	const char *k = tok();
	MsgX *mx = &g_msgs[tok_ll()];
	const ProtobufCFieldDescriptor *f;
	if (!strcmp(k, "fnum")) f = protobuf_c_message_descriptor_get_field(mx->dp, (unsigned) tok_ll());
	else f = protobuf_c_message_descriptor_get_field_by_name(mx->dp, tok());
	printf("idx=%d\n", f ? (int) (f - mx->f) : -1);
}

/* ranges <n> <start:orig>... <sentinel orig> keys...  : int_range_lookup on an arbitrary table */
static void op_ranges(void)
{
	unsigned n = tok_ll(), i;
	ProtobufCIntRange *r = malloc((n + 1) * sizeof *r);
	for (i = 0; i <= n; i++) { r[i].start_value = (int) tok_ll(); r[i].orig_index = tok_ll(); }
	printf("r=");
	while (g_pos < g_ntok && g_tok[g_pos][0] != '#') { int key = (int) tok_ll(); printf("%d,", int_range_lookup(n, r, key)); }
	printf("\n");
	free(r);
}

/* desc <ty>: every descriptor member the runtime or a user can observe, offsets reduced to what is
   layout-independent (has a quantifier member or not; all member extents inside the struct and disjoint) */
static int cmp_ext(const void *a, const void *b) { const unsigned *x = a, *y = b; return x[0] < y[0] ? -1 : x[0] > y[0]; }
static void op_desc(void)
{
	MsgX *mx = &g_msgs[tok_ll()];
	const ProtobufCMessageDescriptor *d = mx->dp;
	unsigned j, nr;
	int layout_ok = 1;
	unsigned (*ext)[2] = malloc((2 * d->n_fields + 2) * sizeof *ext);
	unsigned ne = 0;
	printf("magic=%d name=%s short=%s cname=%s pkg=%s nf=%u init=%d fields=", d->magic == PROTOBUF_C__MESSAGE_DESCRIPTOR_MAGIC,
	       d->name ? d->name : "(null)", d->short_name ? d->short_name : "(null)", d->c_name ? d->c_name : "(null)",
	       d->package_name ? d->package_name : "(null)", d->n_fields, d->message_init != NULL);
	for (j = 0; j < d->n_fields; j++) {
		const ProtobufCFieldDescriptor *f = &d->fields[j];
		int subidx = -1, k;
		char dk = '-';
		if (f->type == PROTOBUF_C_TYPE_MESSAGE) for (k = 0; k < g_nmsgs; k++) if (g_msgs[k].dp == f->descriptor) subidx = k;
		printf("%s%s:%u:%d:%d:%u:%d:%d:", j ? "," : "", f->name ? f->name : "(null)", f->id, (int) f->label, (int) f->type, f->flags,
		       f->quantifier_offset != 0, subidx);
		if (f->default_value) {
			if (f->type == PROTOBUF_C_TYPE_STRING) {
				if (f->default_value == (const void *) protobuf_c_empty_string) printf("E");
				else { printf("S"); put_hex(f->default_value, strlen(f->default_value)); }
			} else if (f->type == PROTOBUF_C_TYPE_BYTES) {
				const ProtobufCBinaryData *bd = f->default_value; printf("B"); put_hex(bd->data, bd->len);
			} else if (is32(f->type)) printf("V%x", *(const uint32_t *) f->default_value);
			else if (is64(f->type)) printf("V%llx", (unsigned long long) *(const uint64_t *) f->default_value);
			else printf("?");
		} else printf("%c", dk);
		/* extents for the disjointness check: value member, and quantifier member unless shared (oneof) */
		{
			unsigned vs = f->label == PROTOBUF_C_LABEL_REPEATED ? 8 : (f->type == PROTOBUF_C_TYPE_BYTES ? 16 : (is32(f->type) ? 4 : 8));
			if (!(f->flags & PROTOBUF_C_FIELD_FLAG_ONEOF)) {
				ext[ne][0] = f->offset; ext[ne][1] = f->offset + vs; ne++;
				if (f->quantifier_offset) { ext[ne][0] = f->quantifier_offset; ext[ne][1] = f->quantifier_offset + (f->label == PROTOBUF_C_LABEL_REPEATED ? 8 : 4); ne++; }
			} else if (f->offset + vs > d->sizeof_message || f->quantifier_offset + 4 > d->sizeof_message || f->quantifier_offset < sizeof(ProtobufCMessage)) layout_ok = 0;
		}
	}
	qsort(ext, ne, sizeof *ext, cmp_ext);
	for (j = 0; j < ne; j++) {
		if (ext[j][0] < sizeof(ProtobufCMessage) || ext[j][1] > d->sizeof_message) layout_ok = 0;
		if (j && ext[j][0] < ext[j - 1][1]) layout_ok = 0;
	}
	free(ext);
	printf(" byname=");
	for (j = 0; j < d->n_fields; j++) printf("%s%u", j ? "," : "", d->fields_sorted_by_name ? d->fields_sorted_by_name[j] : 0);
	printf(" ranges=");
	nr = d->n_field_ranges;
	for (j = 0; j < nr + (d->n_fields ? 1 : 0); j++) printf("%s%d:%u", j ? "," : "", d->field_ranges[j].start_value, d->field_ranges[j].orig_index);
	printf(" layout_ok=%d\n", layout_ok);
}

#ifdef PBCV_GEN
#include "gen_svc.inc"        /* service fixtures and op_svc, written by tools/genpipe.py */
/* initdump <ty>: the static <MSG>__INIT value, member by member */
static void op_initdump(void)
{
	int ty = (int) tok_ll();
	printf("init "); dump_msg((const ProtobufCMessage *) pbcv_gen_inits[ty]); printf("\n");
}
/* genenum <i> ...: dump of the i-th generated enum descriptor */
static void op_enumdesc(void)
{
	const ProtobufCEnumDescriptor *d = pbcv_gen_enums[tok_ll()];
	unsigned j;
	printf("magic=%d name=%s short=%s cname=%s pkg=%s nv=%u values=", d->magic == PROTOBUF_C__ENUM_DESCRIPTOR_MAGIC,
	       d->name ? d->name : "(null)", d->short_name ? d->short_name : "(null)", d->c_name ? d->c_name : "(null)",
	       d->package_name ? d->package_name : "(null)", d->n_values);
	for (j = 0; j < d->n_values; j++)
		printf("%s%s:%s:%d", j ? "," : "", d->values[j].name ? d->values[j].name : "(null)",
		       d->values[j].c_name ? d->values[j].c_name : "(null)", d->values[j].value);
	printf(" nn=%u byname=", d->n_value_names);
	for (j = 0; j < d->n_value_names; j++) printf("%s%s:%u", j ? "," : "", d->values_by_name[j].name, d->values_by_name[j].index);
	printf(" ranges=");
	for (j = 0; j < d->n_value_ranges + (d->n_values ? 1 : 0); j++) printf("%s%d:%u", j ? "," : "", d->value_ranges[j].start_value, d->value_ranges[j].orig_index);
	printf("\n");
}
/* glookup field <ty> <name> | enum <ei> num <v> | enum <ei> name <s> | method <si> <name>: the public lookup functions on
   the generated descriptors ("-" stands for the empty string) */
static void op_glookup(void)
{
	const char *k = tok();
	int i = (int) tok_ll();
	if (!strcmp(k, "field")) {
		const char *nm = tok();
		const ProtobufCMessageDescriptor *d = pbcv_gen_msgs[i];
		const ProtobufCFieldDescriptor *f = protobuf_c_message_descriptor_get_field_by_name(d, nm[0] == '-' ? "" : nm);
		if (f) printf("idx=%d name=%s\n", (int) (f - d->fields), f->name ? f->name : "(null)"); else printf("idx=-1\n");
	} else if (!strcmp(k, "enum")) {
		const char *how = tok();
		const ProtobufCEnumDescriptor *d = pbcv_gen_enums[i];
		const ProtobufCEnumValue *v;
		if (!strcmp(how, "num")) v = protobuf_c_enum_descriptor_get_value(d, (int) tok_ll());
		else { const char *nm = tok(); v = protobuf_c_enum_descriptor_get_value_by_name(d, nm[0] == '-' ? "" : nm); }
		if (v) printf("idx=%d value=%d name=%s\n", (int) (v - d->values), v->value, v->name ? v->name : "(null)"); else printf("idx=-1\n");
	} else {
		const char *nm = tok();
		const ProtobufCServiceDescriptor *d = pbcv_gen_svcs[i];
		const ProtobufCMethodDescriptor *m = protobuf_c_service_descriptor_get_method_by_name(d, nm[0] == '-' ? "" : nm);
		if (m) printf("idx=%d\n", (int) (m - d->methods)); else printf("idx=-1\n");
	}
}
/* genapi <ty> ...: which helper functions the generated header declares for message ty (table written by
   tools/genpipe.py from the header text; every declared function is also referenced there, so a declaration
   without definition does not link) */
static void op_genapi(void)
{
	int ty = (int) tok_ll();
	printf("pack=%d init=%d\n", pbcv_api[ty][0], pbcv_api[ty][1]);
}
#else
static void op_initdump(void) { op_init(); }
#endif

#include "leaf_dispatch.inc"

/* ---- main loop ---------------------------------------------------------------------------------- */
static char *read_line(FILE *in)
{
	ssize_t n = getline(&g_line, &g_linecap, in);
	if (n < 0) return NULL;
	while (n > 0 && (g_line[n - 1] == '\n' || g_line[n - 1] == '\r')) g_line[--n] = 0;
	return g_line;
}
static void tokenize(char *s)
{
	g_ntok = 0; g_pos = 0;
	if (!g_tok) g_tok = malloc(MAXTOK * sizeof(char *));
	while (*s) {
		while (*s == ' ') s++;
		if (!*s) break;
		if (g_ntok == MAXTOK) die("too many tokens");
		g_tok[g_ntok++] = s;
		while (*s && *s != ' ') s++;
		if (*s) *s++ = 0;
	}
}

static void run_op(const char *op)
{
	if (!strcmp(op, "pack")) op_pack();
	else if (!strcmp(op, "unpack")) op_unpack(0);
	else if (!strcmp(op, "unpackf")) op_unpack(1);
	else if (!strcmp(op, "unpacksys")) op_unpacksys();
	else if (!strcmp(op, "rt")) op_rt();
	else if (!strcmp(op, "acc")) op_acc();
	else if (!strcmp(op, "check")) op_check();
	else if (!strcmp(op, "init")) op_init();
	else if (!strcmp(op, "append")) op_append();
	else if (!strcmp(op, "lookup")) op_lookup();
	else if (!strcmp(op, "ranges")) op_ranges();
	else if (!strcmp(op, "leaf")) op_leaf();
	else if (!strcmp(op, "desc")) op_desc();
	else if (!strcmp(op, "initdump")) op_initdump();
#ifdef PBCV_GEN
	else if (!strcmp(op, "gendesc")) op_desc();          /* the rest of the line is for the Lean generator model */
	else if (!strcmp(op, "gensvc")) op_svc((int) tok_ll());
	else if (!strcmp(op, "genenum")) op_enumdesc();
	else if (!strcmp(op, "genapi")) op_genapi();
	else if (!strcmp(op, "glookup")) op_glookup();
#endif
	else printf("bad-op\n");
	sfree_all();
}

#ifdef PBCV_MT
/* ---- C17: N threads, disjoint messages, shared descriptors / defaults / default allocator --------- */
#include <pthread.h>
typedef struct { int ty; size_t len; uint8_t *bytes; } MtInput;
static MtInput *g_in; static size_t g_nin;
typedef struct { int id; uint64_t digest; long ok, fail; } MtThread;

static uint64_t fnv(uint64_t h, const void *p, size_t n) { const uint8_t *b = p; size_t i; for (i = 0; i < n; i++) { h ^= b[i]; h *= 1099511628211ULL; } return h; }

static void *mt_worker(void *arg)
{
	MtThread *t = arg;
	size_t k, rounds;
	uint64_t h = 1469598103934665603ULL;
	for (rounds = 0; rounds < 3; rounds++)
	for (k = 0; k < g_nin; k++) {
		size_t idx = (k + (rounds ? 0 : 0)) % g_nin;      /* same order in every thread: digests must be equal */
		MtInput *x = &g_in[idx];
		MsgX *mx = &g_msgs[x->ty];
		ProtobufCMessage *m = protobuf_c_message_unpack(mx->dp, NULL, x->len, x->bytes);
		const ProtobufCFieldDescriptor *f;
		if (!m) { t->fail++; h = fnv(h, "F", 1); continue; }
		t->ok++;
		{
			size_t sz = protobuf_c_message_get_packed_size(m);
			uint8_t *b = malloc(sz ? sz : 1);
			size_t w = protobuf_c_message_pack(m, b);
			int chk = protobuf_c_message_check(m);
			uint8_t pad[8];
			ProtobufCBufferSimple sb = PROTOBUF_C_BUFFER_SIMPLE_INIT(pad);
			protobuf_c_message_pack_to_buffer(m, &sb.base);
			h = fnv(h, b, w); h = fnv(h, &chk, sizeof chk); h = fnv(h, sb.data, sb.len);
			PROTOBUF_C_BUFFER_SIMPLE_CLEAR(&sb);
			free(b);
		}
		if (mx->dp->n_fields) {
			f = protobuf_c_message_descriptor_get_field(mx->dp, mx->f[idx % mx->dp->n_fields].id);
			h = fnv(h, &f->id, sizeof f->id);
			f = protobuf_c_message_descriptor_get_field_by_name(mx->dp, mx->f[idx % mx->dp->n_fields].name);
			h = fnv(h, f ? "y" : "n", 1);
		}
		protobuf_c_message_free_unpacked(m, NULL);
	}
	t->digest = h;
	return NULL;
}

int main(int argc, char **argv)
{
	FILE *in;
	int nthreads = argc > 2 ? atoi(argv[2]) : 8, i;
	size_t cap = 0;
	pthread_t *th;
	MtThread *ts;
	if (argc < 2 || !(in = fopen(argv[1], "r"))) die("usage: harness_mt <case file with ONE schema> [threads]");
	while (read_line(in)) {
		const char *op;
		if (!g_line[0] || g_line[0] == '#') continue;
		tokenize(g_line);
		op = tok();
		if (!strcmp(op, "schema")) { if (g_nmsgs) break; read_schema(in, (int) tok_ll()); continue; }
		if (!strcmp(op, "unpack") || !strcmp(op, "acc") || !strcmp(op, "unpackf")) {
			if (g_nin == cap) { cap = cap ? 2 * cap : 256; g_in = realloc(g_in, cap * sizeof *g_in); }
			g_in[g_nin].ty = (int) tok_ll();
			g_in[g_nin].bytes = hex2bytes(tok() + 1, &g_in[g_nin].len);
			g_nin++;
		}
	}
	th = calloc(nthreads, sizeof *th); ts = calloc(nthreads, sizeof *ts);
	for (i = 0; i < nthreads; i++) { ts[i].id = i; pthread_create(&th[i], NULL, mt_worker, &ts[i]); }
	for (i = 0; i < nthreads; i++) pthread_join(th[i], NULL);
	for (i = 0; i < nthreads; i++) printf("thread=%d digest=%016llx ok=%ld fail=%ld\n", i, (unsigned long long) ts[i].digest, ts[i].ok, ts[i].fail);
	printf("inputs=%zu threads=%d\n", g_nin, nthreads);
	return 0;
}
#else
int main(int argc, char **argv)
{
	FILE *in = stdin;
	int isolate = 0, i;
	long lineno = 0;
	for (i = 1; i < argc; i++) {
		if (!strcmp(argv[i], "--isolate")) isolate = 1;
		else if (!strcmp(argv[i], "--trace")) g_trace = 1;
		else { in = fopen(argv[i], "r"); if (!in) die("cannot open case file"); }
	}
	while (read_line(in)) {
		const char *op;
		lineno++;
		if (!g_line[0] || g_line[0] == '#') { printf("\n"); continue; }
		tokenize(g_line);
		op = tok();
		if (!strcmp(op, "schema")) { printf("schema ok\n"); read_schema(in, (int) tok_ll()); continue; }
		if (isolate) {
			/* run the operation in a child with a watchdog; a sanitizer abort, signal or timeout is a
			   RESULT attributed to this case.  Output goes through a pipe so partial lines are dropped. */
			pid_t pid;
			int st, pfd[2];
			char *cap = NULL; size_t caplen = 0, capcap = 0;
			fflush(stdout);
			if (pipe(pfd)) die("pipe");
			pid = fork();
			if (pid == 0) { close(pfd[0]); dup2(pfd[1], 1); close(pfd[1]); alarm(20); run_op(op); fflush(stdout); _exit(0); }
			close(pfd[1]);
			for (;;) {
				ssize_t r;
				if (caplen + 65536 > capcap) { capcap = capcap ? 2 * capcap : 1 << 17; cap = realloc(cap, capcap); }
				r = read(pfd[0], cap + caplen, 65536);
				if (r <= 0) break;
				caplen += r;
			}
			close(pfd[0]);
			waitpid(pid, &st, 0);
			if (WIFEXITED(st) && WEXITSTATUS(st) == 0) fwrite(cap, 1, caplen, stdout);
			else if (WIFSIGNALED(st)) printf("CRASH signal=%d\n", WTERMSIG(st));
			else printf("CRASH exit=%d\n", WEXITSTATUS(st));
			free(cap);
		} else run_op(op);
	}
	fflush(stdout);
	free_schema();
	return 0;
}
#endif
