// ref_harness.cc -- the reference implementation (libprotobuf 3.21, DynamicMessage) on the same
// case files.  It builds a DescriptorPool from the schema block (no .proto text involved), parses the
// bytes of every `unpack`/`acc`/`ref` operation and prints a canonical semantic dump (JSON) that
// tools/oracles.py compares with the semantic view of protobuf-c's result.  Used to validate the
// reading of the Protocol Buffers rules (C03, C04, C09, C10, C11); it is not an oracle for memory
// behaviour.
#include <google/protobuf/descriptor.h>
#include <google/protobuf/descriptor.pb.h>
#include <google/protobuf/dynamic_message.h>
#include <google/protobuf/unknown_field_set.h>
#include <google/protobuf/io/coded_stream.h>
#include <cstdio>
#include <cstring>
#include <iostream>
#include <sstream>
#include <fstream>
#include <string>
#include <vector>
#include <memory>

using namespace google::protobuf;

static std::vector<std::string> split(const std::string &s)
{
	std::vector<std::string> out;
	std::istringstream is(s);
	std::string t;
	while (is >> t) out.push_back(t);
	return out;
}
static std::string unhex(const std::string &h)
{
	std::string out;
	for (size_t i = 0; i + 1 < h.size(); i += 2) out.push_back((char) std::stoi(h.substr(i, 2), nullptr, 16));
	return out;
}
static std::string hex(const std::string &b)
{
	static const char *d = "0123456789abcdef";
	std::string out;
	for (unsigned char c : b) { out.push_back(d[c >> 4]); out.push_back(d[c & 15]); }
	return out;
}

static const int ENUM_VALUES[] = {0, 1, 2, 5, 127, 128, 255, 16383, 16384, -1, -2, -128, -129, 2147483647, -2147483647 - 1, 1000000};

struct Schema {
	std::unique_ptr<DescriptorPool> pool;
	std::unique_ptr<DynamicMessageFactory> factory;
	std::vector<const Descriptor *> msgs;
};

static FieldDescriptorProto::Type map_type(int t)
{
	switch (t) {
	case 0: return FieldDescriptorProto::TYPE_INT32;
	case 1: return FieldDescriptorProto::TYPE_SINT32;
	case 2: return FieldDescriptorProto::TYPE_SFIXED32;
	case 3: return FieldDescriptorProto::TYPE_INT64;
	case 4: return FieldDescriptorProto::TYPE_SINT64;
	case 5: return FieldDescriptorProto::TYPE_SFIXED64;
	case 6: return FieldDescriptorProto::TYPE_UINT32;
	case 7: return FieldDescriptorProto::TYPE_FIXED32;
	case 8: return FieldDescriptorProto::TYPE_UINT64;
	case 9: return FieldDescriptorProto::TYPE_FIXED64;
	case 10: return FieldDescriptorProto::TYPE_FLOAT;
	case 11: return FieldDescriptorProto::TYPE_DOUBLE;
	case 12: return FieldDescriptorProto::TYPE_BOOL;
	case 13: return FieldDescriptorProto::TYPE_ENUM;
	case 14: return FieldDescriptorProto::TYPE_STRING;
	case 15: return FieldDescriptorProto::TYPE_BYTES;
	default: return FieldDescriptorProto::TYPE_MESSAGE;
	}
}

static std::string cescape_default(const std::string &b)
{
	std::string out;
	char buf[8];
	for (unsigned char c : b) { snprintf(buf, sizeof buf, "\\%03o", c); out += buf; }
	return out;
}

static bool read_schema(std::istream &in, int nmsgs, int syntax, Schema &S, std::string &err)
{
	FileDescriptorProto fp;
	fp.set_name("case.proto");
	fp.set_package("t");
	fp.set_syntax(syntax == 3 ? "proto3" : "proto2");
	EnumDescriptorProto *e = fp.add_enum_type();
	e->set_name("E");
	for (size_t i = 0; i < sizeof ENUM_VALUES / sizeof ENUM_VALUES[0]; i++) {
		EnumValueDescriptorProto *v = e->add_value();
		v->set_name("E_" + std::to_string(i));
		v->set_number(ENUM_VALUES[i]);
	}
	std::string line;
	for (int i = 0; i < nmsgs; i++) {
		std::getline(in, line);
		printf("\n");
		auto t = split(line);
		DescriptorProto *m = fp.add_message_type();
		m->set_name(t[2]);
		int nf = std::stoi(t[3]), ng = std::stoi(t[5]);
		for (int g = 0; g < ng; g++) m->add_oneof_decl()->set_name("g" + std::to_string(g));
		std::vector<std::vector<std::string>> flines;
		for (int j = 0; j < nf; j++) {
			std::getline(in, line);
			printf("\n");
			flines.push_back(split(line));
		}
		// members of a oneof must be declared consecutively: plain fields first, then group by group
		std::vector<std::vector<std::string>> ordered;
		for (auto &f : flines) if (std::stoi(f[6]) < 0) ordered.push_back(f);
		for (int g = 0; g < ng; g++) for (auto &f : flines) if (std::stoi(f[6]) == g) ordered.push_back(f);
		for (auto &f : ordered) {
			FieldDescriptorProto *fd = m->add_field();
			fd->set_name("x" + f[2]);       // names are irrelevant on the wire; keep them unique
			fd->set_number(std::stoi(f[2]));
			int label = std::stoi(f[3]), type = std::stoi(f[4]), flags = std::stoi(f[5]), group = std::stoi(f[6]), sub = std::stoi(f[7]);
			fd->set_label(label == 0 ? FieldDescriptorProto::LABEL_REQUIRED : label == 2 ? FieldDescriptorProto::LABEL_REPEATED : FieldDescriptorProto::LABEL_OPTIONAL);
			fd->set_type(map_type(type));
			if (type == 16) fd->set_type_name(".t.M" + std::to_string(sub));
			if (type == 13) fd->set_type_name(".t.E");
			if (group >= 0) fd->set_oneof_index(group);
			if (label == 2 && type <= 13) fd->mutable_options()->set_packed((flags & 1) != 0);
			std::string d = f[8];
			// an enum whose first declared value is not 0 (INIT value without explicit default): for the
			// reference this is the same as declaring that value as the default
			if (d[0] == '-' && f.size() > 9 && f[9][0] == 'V') d = f[9];
			if (syntax == 2 && d[0] != '-' && d[0] != 'E') {
				if (d[0] == 'S' || d[0] == 'B') fd->set_default_value(d[0] == 'S' ? unhex(d.substr(1)) : cescape_default(unhex(d.substr(1))));
				else if (d[0] == 'V') {
					unsigned long long bits = std::stoull(d.substr(1), nullptr, 16);
					char buf[64];
					switch (type) {
					case 0: case 1: case 2: snprintf(buf, sizeof buf, "%d", (int) (uint32_t) bits); break;
					case 6: case 7: snprintf(buf, sizeof buf, "%u", (unsigned) bits); break;
					case 3: case 4: case 5: snprintf(buf, sizeof buf, "%lld", (long long) bits); break;
					case 8: case 9: snprintf(buf, sizeof buf, "%llu", bits); break;
					case 12: snprintf(buf, sizeof buf, "%s", bits ? "true" : "false"); break;
					case 10: { float x; uint32_t b32 = bits; memcpy(&x, &b32, 4);
						if (x != x) snprintf(buf, sizeof buf, "nan"); else if (x == 1.0f / 0.0f) snprintf(buf, sizeof buf, "inf"); else if (x == -1.0f / 0.0f) snprintf(buf, sizeof buf, "-inf"); else snprintf(buf, sizeof buf, "%.9g", x); break; }
					case 11: { double x; memcpy(&x, &bits, 8);
						if (x != x) snprintf(buf, sizeof buf, "nan"); else if (x == 1.0 / 0.0) snprintf(buf, sizeof buf, "inf"); else if (x == -1.0 / 0.0) snprintf(buf, sizeof buf, "-inf"); else snprintf(buf, sizeof buf, "%.17g", x); break; }
					case 13: { buf[0] = 0; for (size_t k = 0; k < sizeof ENUM_VALUES / sizeof ENUM_VALUES[0]; k++) if (ENUM_VALUES[k] == (int) (uint32_t) bits) snprintf(buf, sizeof buf, "E_%zu", k); break; }
					default: buf[0] = 0;
					}
					if (buf[0]) fd->set_default_value(buf);
				}
			}
		}
	}
	S.factory.reset();      // prototypes refer to descriptors of the old pool: release them first
	S.pool.reset(new DescriptorPool());
	const FileDescriptor *fdesc = S.pool->BuildFile(fp);
	if (!fdesc) { err = "BuildFile failed"; return false; }
	S.factory.reset(new DynamicMessageFactory(S.pool.get()));
	S.msgs.clear();
	for (int i = 0; i < nmsgs; i++) S.msgs.push_back(fdesc->FindMessageTypeByName("M" + std::to_string(i)));
	return true;
}

static void dump(const Message &m, std::string &out);

static void dump_scalar(const Message &m, const Reflection *r, const FieldDescriptor *f, int idx, std::string &out)
{
	char buf[64];
	bool rep = f->is_repeated();
	switch (f->cpp_type()) {
	case FieldDescriptor::CPPTYPE_INT32: snprintf(buf, sizeof buf, "%u", (uint32_t) (rep ? r->GetRepeatedInt32(m, f, idx) : r->GetInt32(m, f))); out += buf; break;
	case FieldDescriptor::CPPTYPE_UINT32: snprintf(buf, sizeof buf, "%u", rep ? r->GetRepeatedUInt32(m, f, idx) : r->GetUInt32(m, f)); out += buf; break;
	case FieldDescriptor::CPPTYPE_INT64: snprintf(buf, sizeof buf, "%llu", (unsigned long long) (rep ? r->GetRepeatedInt64(m, f, idx) : r->GetInt64(m, f))); out += buf; break;
	case FieldDescriptor::CPPTYPE_UINT64: snprintf(buf, sizeof buf, "%llu", (unsigned long long) (rep ? r->GetRepeatedUInt64(m, f, idx) : r->GetUInt64(m, f))); out += buf; break;
	case FieldDescriptor::CPPTYPE_FLOAT: { float x = rep ? r->GetRepeatedFloat(m, f, idx) : r->GetFloat(m, f); uint32_t b; memcpy(&b, &x, 4); snprintf(buf, sizeof buf, "%u", b); out += buf; break; }
	case FieldDescriptor::CPPTYPE_DOUBLE: { double x = rep ? r->GetRepeatedDouble(m, f, idx) : r->GetDouble(m, f); uint64_t b; memcpy(&b, &x, 8); snprintf(buf, sizeof buf, "%llu", (unsigned long long) b); out += buf; break; }
	case FieldDescriptor::CPPTYPE_BOOL: out += (rep ? r->GetRepeatedBool(m, f, idx) : r->GetBool(m, f)) ? "1" : "0"; break;
	case FieldDescriptor::CPPTYPE_ENUM: snprintf(buf, sizeof buf, "%u", (uint32_t) (rep ? r->GetRepeatedEnumValue(m, f, idx) : r->GetEnumValue(m, f))); out += buf; break;
	case FieldDescriptor::CPPTYPE_STRING: out += "\"" + hex(rep ? r->GetRepeatedString(m, f, idx) : r->GetString(m, f)) + "\""; break;
	case FieldDescriptor::CPPTYPE_MESSAGE: dump(rep ? r->GetRepeatedMessage(m, f, idx) : r->GetMessage(m, f), out); break;
	}
}

// {"f": {"<num>": ["present"|"absent"|"rep"|"sel"|"unsel", value...]}, "u": [[tag, wt, value]]}
static void dump(const Message &m, std::string &out)
{
	const Descriptor *d = m.GetDescriptor();
	const Reflection *r = m.GetReflection();
	out += "{\"f\":{";
	bool first = true;
	for (int i = 0; i < d->field_count(); i++) {
		const FieldDescriptor *f = d->field(i);
		if (!first) out += ",";
		first = false;
		out += "\"" + std::to_string(f->number()) + "\":";
		if (f->is_repeated()) {
			out += "[\"rep\",[";
			int n = r->FieldSize(m, f);
			for (int k = 0; k < n; k++) { if (k) out += ","; dump_scalar(m, r, f, k, out); }
			out += "]]";
		} else if (f->real_containing_oneof()) {
			if (r->HasField(m, f)) { out += "[\"sel\","; dump_scalar(m, r, f, 0, out); out += "]"; }
			else out += "[\"unsel\"]";
		} else {
			bool has = f->has_presence() ? r->HasField(m, f) : true;
			if (!f->has_presence()) {
				// proto3 implicit presence: "present" iff non-default
				std::string v; dump_scalar(m, r, f, 0, v);
				has = !(v == "0" || v == "\"\"");
			}
			if (f->cpp_type() == FieldDescriptor::CPPTYPE_MESSAGE && !has) { out += "[\"absent\",null]"; continue; }
			out += has ? "[\"present\"," : "[\"absent\",";
			dump_scalar(m, r, f, 0, out);
			out += "]";
		}
	}
	out += "},\"u\":[";
	const UnknownFieldSet &u = r->GetUnknownFields(m);
	for (int i = 0; i < u.field_count(); i++) {
		const UnknownField &x = u.field(i);
		if (i) out += ",";
		out += "[" + std::to_string(x.number()) + ",";
		switch (x.type()) {
		case UnknownField::TYPE_VARINT: out += "0," + std::to_string((unsigned long long) x.varint()); break;
		case UnknownField::TYPE_FIXED32: out += "5," + std::to_string(x.fixed32()); break;
		case UnknownField::TYPE_FIXED64: out += "1," + std::to_string((unsigned long long) x.fixed64()); break;
		case UnknownField::TYPE_LENGTH_DELIMITED: out += "2,\"" + hex(x.length_delimited()) + "\""; break;
		default: out += "3,0"; break;
		}
		out += "]";
	}
	out += "]}";
}

int main(int argc, char **argv)
{
	std::istream *in = &std::cin;
	std::ifstream *fin = nullptr;
	(void) fin;
	if (argc > 1) { static std::ifstream f(argv[1]); in = &f; }
	Schema S;
	bool have = false;
	std::string line;
	while (std::getline(*in, line)) {
		auto t = split(line);
		if (t.empty() || t[0][0] == '#') { printf("\n"); continue; }
		if (t[0] == "schema") {
			std::string err;
			int syntax = t.size() > 2 ? std::stoi(t[2]) : 2;
			have = read_schema(*in, std::stoi(t[1]), syntax, S, err);
			printf("%s\n", have ? "schema ok" : ("schema-error " + err).c_str());
			continue;
		}
		if ((t[0] == "unpack" || t[0] == "acc" || t[0] == "ref" || t[0] == "unpackf") && have) {
			int ty = std::stoi(t[1]);
			std::string bytes = unhex(t[2].substr(1));
			std::unique_ptr<Message> m(S.factory->GetPrototype(S.msgs[ty])->New());
			bool ok = m->ParsePartialFromString(bytes);
			if (!ok) { printf("fail\n"); continue; }
			std::string out;
			dump(*m, out);
			printf("ok init=%d %s\n", m->IsInitialized() ? 1 : 0, out.c_str());
			continue;
		}
		printf("\n");
	}
	return 0;
}
